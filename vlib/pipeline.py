# Solver-based checking pipeline: harness TU (C++, includes the real texel sources)
#   -> clang IR -> ir2c -> C -> CBMC (bounded, all inputs)  + native replay of witnesses / counterexamples.
# Only the python standard library is used.
import os, re, sys, json, time, shutil, signal, subprocess, resource, hashlib, threading
from concurrent.futures import ThreadPoolExecutor

VERIF = os.path.dirname(os.path.dirname(os.path.abspath(__file__)))
REPO = os.environ.get('VERIF_REPO', '/repo')
TOOLS = os.path.join(VERIF, 'tools')
IR2C = os.path.join(VERIF, 'build', 'ir2c')
HARNESS = os.path.join(VERIF, 'harness')

INCLUDE_DIRS = ['lib/texellib', 'lib/texellib/book', 'lib/texellib/debug', 'lib/texellib/hw', 'lib/texellib/nn',
                'lib/texellib/tb', 'lib/texellib/util', 'lib/texellib/tb/gtb/sysport', 'lib/texellib/tb/gtb/compression',
                'lib/texellib/tb/gtb/compression/lzma', 'lib/texellib/tb/gtb', 'lib/texellib/tb/syzygy',
                'lib/texelutillib', 'lib/texelutillib/pg', 'app/texel', 'app/texelutil']

CBMC_CHECKS = ['--signed-overflow-check', '--undefined-shift-check', '--pointer-overflow-check',
               '--unwinding-assertions', '--drop-unused-functions', '--no-malloc-may-fail']

DEFAULT_EXTERN = [r'nondet_\w+', r'verif_\w+', r'__CPROVER_\w+', r'malloc|free|calloc|realloc|memcpy|memmove|memset|memcmp|strlen|strcmp|abort|exit',
                  r'__ir_\w+', r'__cxa_(begin_catch|end_catch|free_exception|throw|rethrow|atexit|guard_\w+)', r'_Unwind_Resume', r'__gxx_personality_v0', r'__clang_call_terminate']

class Unit:
    """One harness translation unit, lowered once; several entries (obligations) may share it."""
    def __init__(self, name, src, entries, defines=None, aliases=None, stubs=None, noinline=None, extra_roots=None,
                 throw_ok=False, clang_flags=None, object_bits=None, allow_extern=None, lemmas=None, discover=None):
        self.discover = dict(discover or {})   # {MACRO: regex with one group over the IR text}: symbol names of internal functions (lambdas) found in a pre-pass, passed as -DMACRO="name"
        self.name = name; self.src = src; self.entries = list(entries)
        self.defines = dict(defines or {}); self.aliases = dict(aliases or {}); self.stubs = list(stubs or [])
        self.noinline = list(noinline or []); self.extra_roots = list(extra_roots or [])
        self.throw_ok = throw_ok; self.clang_flags = list(clang_flags or []); self.object_bits = object_bits
        self.allow_extern = list(allow_extern or []); self.externals = []
        self.lemmas = list(lemmas or [])    # obligation-id prefixes that justify this unit's aliases
        self.dir = None; self.error = None; self.lower_s = 0.0; self.functions = []

class Ob:
    """One proof obligation = one CBMC query family over a unit entry."""
    def __init__(self, oid, unit, entry, desc, unwind, core=True, tiers=('quick', 'thorough'), param=0, timeout=600,
                 mem_gb=8, functions=None, bounds='', assumptions=None, stubs=None, extra_flags=None, unwindset=None,
                 backend=None, site=None, no_checks=False, unwind_fn=None, ram_gb=None):
        self.oid = oid; self.unit = unit; self.entry = entry; self.desc = desc; self.unwind = unwind; self.core = core
        self.tiers = tiers; self.param = param; self.timeout = timeout; self.mem_gb = mem_gb
        self.functions = functions or []; self.bounds = bounds; self.assumptions = assumptions or []
        self.stubs = stubs or []; self.extra_flags = extra_flags or []; self.unwindset = unwindset
        self.backend = backend; self.site = site or ''; self.no_checks = no_checks
        self.unwind_fn = unwind_fn or {}    # {regex on function name or on loop id 'function.N': bound} -> unwindset for the matching loops (first match wins)
        self.ram_gb = ram_gb                # estimated resident memory of the query (cbmc + SAT solver); scheduling only
        self.result = None

def log(msg):
    sys.stderr.write(msg + '\n'); sys.stderr.flush()

def run(cmd, cwd=None, timeout=None, mem_gb=None, stdout_file=None, env=None):
    """Run cmd; returns (rc, output, seconds, maxrss_kb). rc = 'timeout' on timeout."""
    def pre():
        os.setsid()
        if mem_gb:
            # address-space cap: twice the stated size plus 4 GB, because cbmc fork()s the external SAT solver (the child briefly doubles the
            # virtual size; a cap equal to the stated size made that fork fail on otherwise tiny queries)
            lim = int((2 * mem_gb + 4) * (1 << 30))
            resource.setrlimit(resource.RLIMIT_AS, (lim, lim))
    t0 = time.time()
    out_f = open(stdout_file, 'wb') if stdout_file else subprocess.PIPE
    p = subprocess.Popen(cmd, cwd=cwd, stdout=out_f, stderr=subprocess.STDOUT, preexec_fn=pre, env=env)
    try:
        out, _ = p.communicate(timeout=timeout)
        rc = p.returncode
    except subprocess.TimeoutExpired:
        try: os.killpg(p.pid, signal.SIGKILL)
        except ProcessLookupError: pass
        out, _ = p.communicate()
        rc = 'timeout'
    if stdout_file:
        out_f.close()
        with open(stdout_file, 'rb') as f: out = f.read()
    dt = time.time() - t0
    return rc, (out or b'').decode('utf-8', 'replace'), dt, 0

def inc_flags():
    return ['-I' + os.path.join(REPO, d) for d in INCLUDE_DIRS] + ['-I' + os.path.join(HARNESS, 'common'), '-I' + HARNESS]

def lower_unit(u, scratch):
    """clang -> opt -> ir2c (dyn list) -> native build -> dump -> ir2c (data) -> gen.c, exe_native, exe_c."""
    t0 = time.time()
    d = os.path.join(scratch, 'unit-' + u.name); os.makedirs(d, exist_ok=True); u.dir = d
    src = os.path.join(HARNESS, u.src)
    defs = ['-D%s=%s' % kv if kv[1] is not None else '-D' + kv[0] for kv in u.defines.items()] + ['-DHAS_RT']
    def fail(stage, out):
        u.error = '%s failed for unit %s:\n%s' % (stage, u.name, out[-4000:]); return False
    # 0. symbol discovery: internal functions of the repository (lambdas) the harness calls through an asm label
    if u.discover:
        ph = ['-D%s="verif_undiscovered_%s"' % (m, m) for m in u.discover]
        rc, out, _, _ = run(['clang++-14', '-std=c++11', '-O0', '-Xclang', '-disable-O0-optnone', '-fno-access-control', '-fno-threadsafe-statics',
                             '-emit-llvm', '-S', '-w', '-DVERIF_CBMC'] + ph + defs + u.clang_flags + inc_flags() + [src, '-o', 'disc.ll'], cwd=d, timeout=600)
        if rc != 0: return fail('clang (discovery)', out)
        with open(os.path.join(d, 'disc.ll')) as f: irtext = f.read()
        for m, rx in u.discover.items():
            found = sorted(set(re.findall(rx, irtext)))
            if len(found) != 1: return fail('symbol discovery', '%s: %d matches for %s' % (m, len(found), rx))
            defs.append('-D%s="%s"' % (m, found[0]))
        os.remove(os.path.join(d, 'disc.ll'))
    # 1. IR (plain and UBSan-instrumented flavours; the latter only for native replay)
    force = []
    for f in list(u.aliases.keys()) + u.noinline: force += ['-force-attribute=%s:noinline' % f]
    alias_args = []
    for k, v in u.aliases.items(): alias_args += ['--alias', '%s=%s' % (k, v)]
    def front(tag, extra):
        rc, out, _, _ = run(['clang++-14', '-std=c++11', '-O0', '-Xclang', '-disable-O0-optnone', '-fno-access-control', '-fno-threadsafe-statics',
                             '-emit-llvm', '-S', '-w', '-DVERIF_CBMC'] + extra + defs + u.clang_flags + inc_flags() + [src, '-o', tag + '0.ll'], cwd=d, timeout=600)
        if rc != 0: return fail('clang', out)
        cur = tag + '0.ll'
        if force:
            rc, out, _, _ = run(['opt-14', '-S', '-forceattrs'] + force + [cur, '-o', tag + '1.ll'], cwd=d, timeout=300)
            if rc != 0: return fail('opt -forceattrs', out)
            cur = tag + '1.ll'
        # native flavour: same IR with the substitutions applied, compiled by clang
        rc, out, _, _ = run([IR2C, cur, '/dev/null'] + alias_args + ['--rewrite', tag + 'n.ll'], cwd=d, timeout=300)
        if rc != 0: return fail('ir2c --rewrite', out)
        rc, out, _, _ = run(['clang++-14', '-O1', '-g0', '-w', '-fno-stack-protector', '-c', tag + 'n.ll', '-o', tag + '_native.o'], cwd=d, timeout=900)
        if rc != 0: return fail('clang native', out)
        return cur
    cur = front('h', [])
    if not cur: return False
    if not front('u', ['-fsanitize=undefined', '-fno-sanitize=vptr,function', '-fno-sanitize-recover=undefined']): return False
    rc, out, _, _ = run(['opt-14', '-S', '-O1', '-vectorize-loops=false', '-vectorize-slp=false', '-unroll-threshold=0', '-disable-loop-idiom-all',
                         '-phi-node-folding-threshold=0', '-two-entry-phi-node-folding-threshold=0', cur, '-o', 'h.ll'], cwd=d, timeout=600)
    if rc != 0: return fail('opt -O1', out)
    # 2. ir2c pass 1
    args = list(alias_args)
    for e in u.entries + u.extra_roots: args += ['--root', e]
    for s in u.stubs: args += ['--stub', s]
    rc, out, _, _ = run([IR2C, 'h.ll', 'gen0.c'] + args + ['--dyn-list', 'dyn.txt'], cwd=d, timeout=300)
    if rc != 0: return fail('ir2c(pass1)', out)
    # 3. native executables of the same harness against the real code
    with open(os.path.join(d, 'entries.c'), 'w') as f:
        f.write('struct verif_entry { const char* name; void (*fn)(void); };\n')
        for e in u.entries: f.write('void %s(void);\n' % e)
        f.write('struct verif_entry verif_entries[] = {' + ''.join('{"%s", %s},' % (e, e) for e in u.entries) + '{0,0}};\n')
    wrap = '-Wl,--wrap=malloc,--wrap=free,--wrap=calloc,--wrap=realloc,--unresolved-symbols=ignore-all'
    jobs = [(['gcc', '-O1', '-w', '-c', os.path.join(TOOLS, 'native_rt.c'), '-o', 'native_rt.o'], 'gcc native_rt'),
            (['gcc', '-O1', '-w', '-c', 'entries.c', '-o', 'entries.o'], 'gcc entries'),
            (['g++', '-O1', '-w', '-c', os.path.join(TOOLS, 'native_heap.cpp'), '-o', 'native_heap.o'], 'g++ native_heap')]
    for cmd, what in jobs:
        rc, out, _, _ = run(cmd, cwd=d, timeout=900)
        if rc != 0: return fail(what, out)
    rc, out, _, _ = run(['clang++-14', '-no-pie', 'h_native.o', 'native_rt.o', 'entries.o', 'native_heap.o', wrap, '-lpthread', '-o', 'exe_native'], cwd=d, timeout=300)
    if rc != 0: return fail('link native', out)
    rc, out, _, _ = run(['clang++-14', '-no-pie', '-fsanitize=undefined', 'u_native.o', 'native_rt.o', 'entries.o', 'native_heap.o', wrap, '-lpthread', '-o', 'exe_ubsan'], cwd=d, timeout=300)
    if rc != 0: return fail('link ubsan', out)
    # 4. dump run-time initialised globals
    rc, out, _, _ = run(['nm', '-S', '--defined-only', 'exe_native'], cwd=d, timeout=120)
    if rc != 0: return fail('nm', out)
    symtab = {}
    lines = []
    for ln in out.splitlines():
        p = ln.split()
        if len(p) == 4: addr, size, _, name = p; size = int(size, 16)
        elif len(p) == 3: addr, _, name = p; size = 0
        else: continue
        symtab.setdefault(name, (int(addr, 16), size))
        lines.append('S %s %x %x' % (name, int(addr, 16), size))
    req = []
    for ln in open(os.path.join(d, 'dyn.txt')):
        name, size = ln.split()
        if name in symtab: req.append('%s %x %d' % (name, symtab[name][0], int(size)))
        else: return fail('dump', 'global %s not found in native executable' % name)
    open(os.path.join(d, 'req.txt'), 'w').write('\n'.join(req) + '\n')
    rc, out, _, _ = run(['./exe_native', 'dump', 'req.txt', 'dump.txt'], cwd=d, timeout=300)
    if rc != 0: return fail('native dump', out)
    with open(os.path.join(d, 'data.txt'), 'w') as f:
        f.write('\n'.join(lines) + '\n'); f.write(open(os.path.join(d, 'dump.txt')).read())
    # 5. ir2c pass 2
    rc, out, _, _ = run([IR2C, 'h.ll', 'gen.c'] + args + ['--data', 'data.txt', '--externals', 'externals.txt'], cwd=d, timeout=600)
    if rc != 0: return fail('ir2c(pass2)', out)
    # undefined externals must be allowed explicitly (CBMC: nondet result, no side effects)
    bad = []
    for ln in open(os.path.join(d, 'externals.txt')):
        kind, name = ln.split()[0], ln.split()[1]
        cname = ln.split()[2] if len(ln.split()) > 2 else name
        if kind == 'A': continue        # address taken only (vtable slot etc.), never called directly
        if any(re.fullmatch(pat, name) or re.fullmatch(pat, cname) for pat in DEFAULT_EXTERN + u.allow_extern):
            u.externals.append(name); continue
        bad.append(ln.strip())
    if bad: return fail('externals', 'undefined functions/globals reachable from the harness that are not allowed explicitly:\n' + '\n'.join(bad))
    # 6. concrete build of the translation (for translation validation)
    rc, out, _, _ = run(['gcc', '-O1', '-w', '-fwrapv', '-no-pie', '-I' + TOOLS, 'gen.c', 'native_rt.o', 'entries.o', '-lm', '-Wl,--unresolved-symbols=ignore-all', '-o', 'exe_c'], cwd=d, timeout=900)
    if rc != 0: return fail('gcc gen.c', out)
    # functions encoded (for evidence)
    fns = re.findall(r'^[A-Za-z_][^\n;{]*?\b(_Z\w+|h_\w+)\(', open(os.path.join(d, 'gen.c')).read(), re.M)
    u.functions = sorted(set(fns))
    u.lower_s = time.time() - t0
    return True

def parse_vector(trace_text):
    """Input vector = values of the __nd_* locals of the nondet_* wrappers, in trace order."""
    vec = []
    for m in re.finditer(r'^\s*__nd_(\w+)=(-?\d+)', trace_text, re.M):
        v = int(m.group(2))
        if v < 0: v += 1 << 64
        vec.append(v)
    return vec

def run_native(u, exe, entry, param, vec, seed=1, keepgoing=False, tag='v'):
    vf = os.path.join(u.dir, '%s-%s-%d.vec' % (tag, entry, threading.get_ident()))
    open(vf, 'w').write('\n'.join(str(v) for v in vec) + '\n')
    cmd = [os.path.join(u.dir, exe), 'run', entry, str(param), vf, str(seed)] + (['k'] if keepgoing else [])
    env = dict(os.environ); env['UBSAN_OPTIONS'] = 'print_stacktrace=0:halt_on_error=1'
    rc, out, _, _ = run(cmd, cwd=u.dir, timeout=120, env=env)
    return rc, out.strip()

_loops_lock = threading.Lock()
def unit_loops(u):
    """loop identifiers of the unit's generated C (cached)"""
    with _loops_lock:
        if getattr(u, '_loops', None) is None:
            rc, out, _, _ = run(['cbmc', os.path.join(u.dir, 'gen.c'), os.path.join(TOOLS, 'cbmc_rt.c'), '-I', TOOLS, '--show-loops'], cwd=u.dir, timeout=600)
            u._loops = re.findall(r'^Loop (\S+):', out, re.M)
        return u._loops

def cbmc_cmd(u, ob, witness, disabled=()):
    cmd = ['cbmc', os.path.join(u.dir, 'gen.c'), os.path.join(TOOLS, 'cbmc_rt.c'), '-I', TOOLS, '--function', ob.entry,
           '-DVERIF_PARAM=%d' % ob.param, '--unwind', str(ob.unwind), '--trace', '--verbosity', '8']
    uws = [ob.unwindset] if ob.unwindset else []
    if ob.unwind_fn:
        for lid in unit_loops(u):
            fn = lid.rsplit('.', 1)[0]
            for pat, bound in ob.unwind_fn.items():
                if re.fullmatch(pat, fn) or re.fullmatch(pat, lid): uws.append('%s:%d' % (lid, bound)); break
    if uws: cmd += ['--unwindset', ','.join(uws)]
    if u.throw_ok: cmd += ['-DVERIF_THROW_OK']
    cmd += ['--object-bits', str(u.object_bits or 12)]
    if witness:
        cmd += ['-DWITNESS', '--no-standard-checks', '--drop-unused-functions', '--no-malloc-may-fail', '--stop-on-fail', '--property', 'verif_end.assertion.1']
        if ob.backend in ('kissat', None): cmd += ['--external-sat-solver', 'kissat']
    else:
        cmd += [c for c in CBMC_CHECKS if c not in disabled] + ob.extra_flags + ['--stop-on-fail']
        if ob.backend == 'cadical': cmd += ['--sat-solver', 'cadical']
        elif ob.backend in ('kissat', None): cmd += ['--external-sat-solver', 'kissat']    # default: kissat (minisat, CBMC's built-in default, is 2-10x slower on the large instances here)
        elif ob.backend == 'minisat': pass
        elif ob.backend == 'cvc5': cmd += ['--cvc5']       # SMT back end (term-level sharing helps float-heavy queries)
    return cmd

def failed_props(out):
    return re.findall(r'^\[([^\]]+)\]\s+(.*?):\s+FAILURE\s*$', out, re.M)

def stats(out):
    v = re.findall(r'(\d+) variables, (\d+) clauses', out)
    vars_, cls = (max(int(a) for a, _ in v), max(int(b) for _, b in v)) if v else (0, 0)
    t = re.findall(r'Runtime decision procedure: ([\d.]+)s', out)
    return vars_, cls, sum(float(x) for x in t)

def work(out):
    """Solver-independent size of a query: SSA steps of the unwound program, number of properties (assertions + safety checks) decided."""
    st = re.findall(r'size of program expression: (\d+) steps', out)
    pr = re.findall(r'\*\* \d+ of (\d+) failed', out)
    return (max(int(x) for x in st) if st else 0), (max(int(x) for x in pr) if pr else 0)

def run_cbmc(cmd, cwd, timeout, mem_gb):
    """CBMC or its external SAT solver killed from outside (machine-wide out-of-memory killer, rc < 0) or starved of memory is a property of the machine's
    load at that moment, not of the query: wait and try again (twice); a third failure is reported as it is (error, never a pass)."""
    for attempt in range(3):
        rc, out, dt, x = run(cmd, cwd=cwd, timeout=timeout, mem_gb=mem_gb)
        killed = (isinstance(rc, int) and rc < 0) or ('VERIFICATION' not in out and rc != 'timeout' and
                 re.search(r'unexpected response', out) is not None)     # external SAT solver died
        if not killed: break
        log('  (cbmc was killed or ran out of memory: rc=%s; retrying in 60 s)' % rc)
        time.sleep(60 * (attempt + 1))
    return rc, out, dt, x

def check_ob(ob, seed, known):
    """Runs witness twin, translation validation, the query, and replay.  Fills ob.result."""
    u = ob.unit; t0 = time.time()
    r = {'id': ob.oid, 'entry': ob.entry, 'param': ob.param, 'desc': ob.desc, 'core': ob.core, 'unwind': ob.unwind, 'bounds': ob.bounds,
         'assumptions': ob.assumptions, 'stubs': ob.stubs, 'functions': ob.functions, 'backend': ob.backend or 'kissat(default)',
         'status': None, 'witness': None, 'tv_vectors': 0, 'solver_s': 0.0, 'wall_s': 0.0, 'vars': 0, 'clauses': 0, 'steps': 0, 'nprops': 0, 'detail': ''}
    ob.result = r
    if u.error:
        r['status'] = 'error'; r['detail'] = u.error; return r
    # --- witness twin: the end of the harness must be reachable under the assumptions
    cmd = cbmc_cmd(u, ob, True)
    rc, out, dt, _ = run_cbmc(cmd, u.dir, ob.timeout, ob.mem_gb)
    if rc == 'timeout':
        r['status'] = 'undecided'; r['detail'] = 'witness query timed out after %ds' % ob.timeout; r['wall_s'] = time.time() - t0; return r
    if 'VERIFICATION FAILED' not in out:
        r['status'] = 'error'; r['detail'] = 'witness twin not violated (vacuous harness or cbmc error):\n' + out[-3000:]; r['wall_s'] = time.time() - t0; return r
    wvec = parse_vector(out)
    r['witness'] = wvec[:64]
    # --- translation validation on the witness and on random vectors: real code (g++) vs generated C (gcc)
    tv = 0
    vecs = [(wvec, 0)] + [([], seed * 1000 + k + 1) for k in range(4)] + [(wvec[:max(1, len(wvec) // 2)], seed * 1000 + 77)]
    for vec, sd in vecs:
        rc1, o1 = run_native(u, 'exe_native', ob.entry, ob.param, vec, sd, tag='tv')
        rc2, o2 = run_native(u, 'exe_c', ob.entry, ob.param, vec, sd, tag='tv')
        if rc1 != 0 or rc2 != 0 or o1 != o2:
            r['status'] = 'error'; r['detail'] = 'translation validation mismatch on vector %s seed %d: native rc=%s "%s" vs generated C rc=%s "%s"' % (vec[:32], sd, rc1, o1[-300:], rc2, o2[-300:])
            r['wall_s'] = time.time() - t0; return r
        tv += 1
        # (a witness that already fails a harness assertion natively is a counterexample candidate: let the query decide)
        if vec is wvec and sd == 0 and not o1.startswith('END') and not o1.startswith('ASSERT-FAIL'):
            r['status'] = 'error'; r['detail'] = 'witness vector does not reach the end natively: "%s"' % o1[-300:]; r['wall_s'] = time.time() - t0; return r
    r['tv_vectors'] = tv
    # --- the query.  LLVM may speculate an arithmetic instruction whose out-of-range result is unused (poison, not UB in the
    # source).  CBMC's overflow/shift checks then fire on the generated C although the real program has no UB there: such a
    # counterexample does not replay under UBSan; the check class is then switched off for this obligation and the query
    # repeated (recorded in the evidence), so that the verdict on the harness assertions is still obtained.
    disabled = []
    for attempt in range(4):
        cmd = cbmc_cmd(u, ob, False, disabled)
        rc, out, dt, _ = run_cbmc(cmd, u.dir, ob.timeout, ob.mem_gb)
        r['vars'], r['clauses'], r['solver_s'] = stats(out) if rc != 'timeout' else (0, 0, 0.0)
        r['steps'], r['nprops'] = work(out) if rc != 'timeout' else (0, 0)
        r['cbmc_s'] = dt
        r['cmd'] = ' '.join(cmd).replace(u.dir, '$UNIT')
        retry = False
        if rc == 'timeout':
            r['status'] = 'undecided'; r['detail'] = 'query timed out after %ds' % ob.timeout
        elif 'VERIFICATION SUCCESSFUL' in out:
            r['status'] = 'discharged'
            r['properties'] = len(re.findall(r':\s+SUCCESS\s*$', out, re.M))
        elif 'VERIFICATION FAILED' in out:
            fp = failed_props(out)
            viol = re.search(r'Violated property:\s*\n\s*file (\S+) function (\S+) line (\d+)[^\n]*\n\s*(.*)', out)
            if not fp and viol: fp = [('%s.%s' % (viol.group(2), viol.group(3)), viol.group(4).strip())]
            vec = parse_vector(out)
            r['cex'] = vec[:256]; r['failed_props'] = ['%s: %s' % f for f in fp][:10]
            unwinding = [f for f in fp if 'unwinding assertion' in f[1] or 'recursion unwinding' in f[1]]
            rc1, o1 = run_native(u, 'exe_native', ob.entry, ob.param, vec, 0, keepgoing=True, tag='cex')
            rc2, o2 = run_native(u, 'exe_ubsan', ob.entry, ob.param, vec, 0, keepgoing=True, tag='cex')
            r['replay_native'] = o1[-600:]; r['replay_ubsan'] = o2[-1200:]
            labels = re.findall(r'ASSERT-FAIL (.*)', o1)
            if not labels and o1.startswith('THROW') and not u.throw_ok and any('exception thrown' in f[1] for f in fp): labels = ['C++ exception thrown (uncaught)']
            ub = 'runtime error' in o2
            if unwinding and len(unwinding) == len(fp):
                r['status'] = 'error'; r['detail'] = 'unwinding bound too small: ' + '; '.join(f[0] for f in unwinding)
            elif labels or ub:
                r['status'] = 'violated'
                sites = re.findall(r'([\w./+-]+:\d+):\d+: runtime error', o2)
                r['what'] = ('assertion "%s"' % labels[0]) if labels else ('undefined behaviour: ' + re.findall(r'runtime error: (.*)', o2)[0][:200])
                r['label'] = labels[0] if labels else 'UB:' + (sites[0].replace(REPO + '/', '') if sites else 'unknown')
            else:
                cls = None
                txt = ' '.join(f[1] for f in fp)
                if 'shift distance' in txt or 'shift operand' in txt: cls = '--undefined-shift-check'
                elif 'arithmetic overflow' in txt: cls = '--signed-overflow-check'
                elif 'pointer arithmetic' in txt or 'pointer overflow' in txt: cls = '--pointer-overflow-check'
                if cls and cls not in disabled and rc1 == 0 and rc2 == 0 and o1 == o2:
                    disabled.append(cls); retry = True
                    r.setdefault('speculative_poison_ignored', []).append('%s (no UB on the real code: UBSan replay clean; %s switched off for this obligation)' % ('; '.join('%s: %s' % f for f in fp[:2]), cls))
                else:
                    r['status'] = 'error'
                    r['detail'] = 'counterexample does not reproduce on the real code (encoding mismatch or pointer-model-only failure): ' + '; '.join('%s: %s' % f for f in fp[:5])
        else:
            r['status'] = 'error'; r['detail'] = 'cbmc gave no verdict (rc=%s):\n%s' % (rc, out[-3000:])
        if not retry: break
    r['wall_s'] = time.time() - t0
    if r['status'] in ('error',) and rc != 'timeout':
        r['cbmc_tail'] = out[-1500:]
    return r

def load_known():
    known = []
    p = os.path.join(VERIF, 'known_findings.txt')
    if os.path.exists(p):
        for ln in open(p):
            ln = ln.strip()
            if ln.startswith('known:'):
                kv = dict(re.findall(r'(\w+)=("[^"]*"|\S+)', ln))
                known.append({k: v.strip('"') for k, v in kv.items()})
    return known

def run_property(pid, units, obs, tier, seed, level_text, trusted_base, extra_assumptions, jobs=16):
    t0 = time.time()
    scratch = '/var/tmp/verif-%s-%d' % (pid, os.getpid())
    shutil.rmtree(scratch, ignore_errors=True); os.makedirs(scratch)
    obs = [o for o in obs if tier in o.tiers]
    used_units = []
    for o in obs:
        if o.unit not in used_units: used_units.append(o.unit)
    known = [k for k in load_known() if k.get('property') == pid]
    try:
        with ThreadPoolExecutor(max_workers=jobs) as ex:
            list(ex.map(lambda u: lower_unit(u, scratch), used_units))
        # memory-aware admission: the sum of the estimated resident sizes of the running queries stays below 70% of the machine's memory
        # (16 four-man queries of 4-5 GB each exhausted a 62 GB machine and were killed: errors, not verdicts)
        try:
            with open('/proc/meminfo') as f: total_gb = int(re.search(r'MemTotal:\s+(\d+)', f.read()).group(1)) / 1048576.0
        except Exception: total_gb = 32.0
        budget = float(os.environ.get('VERIF_RAM_GB', 0)) or max(8.0, 0.7 * total_gb); ram = {'used': 0.0}; cv = threading.Condition()
        def est(o):
            if o.ram_gb: return float(o.ram_gb)
            nm = int(o.unit.defines.get('NMEN', 0) or 0)
            return 6.0 if nm >= 5 else 5.0 if nm == 4 else 2.5
        def one(o):
            need = min(est(o), budget)
            with cv:
                while ram['used'] + need > budget: cv.wait()
                ram['used'] += need
            try:
                return one_(o)
            finally:
                with cv:
                    ram['used'] -= need; cv.notify_all()
        def one_(o):
            r = check_ob(o, seed, known)
            log('  [%s] %s %s %.0fs %s' % (pid, o.oid, r['status'], r['wall_s'], (r.get('what') or r.get('detail') or '')[:200].replace('\n', ' | ')))
            return r
        with ThreadPoolExecutor(max_workers=jobs) as ex:
            # longest first (costs.json: wall seconds of an earlier full run, refreshed by tools/update_costs.py; unknown obligations count as long)
            try:
                with open(os.path.join(VERIF, 'vlib', 'costs.json')) as f: costs = json.load(f).get(pid, {})
            except Exception: costs = {}
            order = sorted(obs, key=lambda o: -costs.get(o.oid, 10000))
            list(ex.map(one, order))
        # proved substitutions: dependants are void unless every lemma obligation of their unit is discharged
        for o in obs:
            if os.environ.get('VERIF_NOLEMMA'): break      # development only (partial runs)
            for lem in o.unit.lemmas:
                ls = [x for x in obs if x.oid.startswith(lem)]
                if o.result['status'] == 'discharged' and (not ls or any(x.result['status'] != 'discharged' for x in ls)):
                    o.result['status'] = 'undecided'; o.result['detail'] = 'depends on substitution lemma %s which is not discharged in this run' % lem
        results = [o.result for o in obs]
        violations = []; knownhits = []; errors = []; undecided_core = []
        os.makedirs(os.path.join(VERIF, 'replays'), exist_ok=True)
        for o in obs:
            r = o.result
            if r['status'] == 'violated':
                hit = None
                for k in known:
                    if k.get('obligation') == o.oid.split('@')[0] and k.get('label') == r.get('label'):
                        hit = k
                if hit: knownhits.append((o, hit))
                else: violations.append(o)
            elif r['status'] == 'error': errors.append(o)
            elif r['status'] == 'undecided' and o.core: undecided_core.append(o)
        for o, k in knownhits:
            print('KNOWN-FINDING: property=%s obligation=%s %s' % (pid, o.oid, o.result.get('what', '')))
        for o in violations:
            rp = os.path.join(VERIF, 'replays', '%s-%s.txt' % (pid, re.sub(r'[^A-Za-z0-9_.-]', '_', o.oid)))
            with open(rp, 'w') as f:
                f.write('property=%s obligation=%s\nwhat: %s\nentry=%s param=%d harness=%s\n' % (pid, o.oid, o.result.get('what'), o.entry, o.param, o.unit.src))
                f.write('input vector (values returned by successive nondet_* calls):\n' + ' '.join(str(v) for v in o.result.get('cex', [])) + '\n')
                f.write('native replay output:\n%s\nubsan replay output:\n%s\n' % (o.result.get('replay_native'), o.result.get('replay_ubsan')))
                f.write('failed CBMC properties:\n' + '\n'.join(o.result.get('failed_props', [])) + '\n')
                f.write('to replay: ./check %s --replay %s\n' % (pid, rp))
            print('VIOLATION property=%s replay=%s' % (pid, rp))
        for o in errors:
            log('ERROR obligation %s: %s' % (o.oid, o.result['detail'][:3000]))
        for o in undecided_core:
            log('UNDECIDED core obligation %s: %s' % (o.oid, o.result['detail']))
        # evidence
        n = len(obs); disc = sum(1 for r in results if r['status'] == 'discharged')
        big = max(results, key=lambda r: r['vars']) if results else None
        ev = {
            'property_id': pid, 'tier': tier, 'seed': seed, 'level': 'model_checking',
            'coverage': {
                'states': max(1, sum(r.get('steps', 0) for r in results)), 'transitions': max(1, sum(r.get('nprops', 0) for r in results)),
                'states_transitions_meaning': 'states = SSA steps of the unwound programs handed to the solver, summed over the obligations of this run; transitions = properties (harness assertions + '
                                              'bounds/overflow/shift/unwinding checks) decided by the solver, summed likewise (bounded symbolic model checking has no explicit state count; both numbers are '
                                              'deterministic for a given tree and independent of the SAT back end)',
                'traces_validated_against_impl': sum(r['tv_vectors'] for r in results) + sum(1 for r in results if r.get('cex')),
                'samples': [{'obligation': r['id'], 'status': r['status'], 'witness_input_vector': r['witness'], 'desc': r['desc']} for r in results[:12]],
                'obligations': n, 'discharged': disc,
                'undecided': [r['id'] for r in results if r['status'] == 'undecided'],
                'errors': [r['id'] for r in results if r['status'] == 'error'],
                'violated': [r['id'] for r in results if r['status'] == 'violated'],
                'known_findings_hit': [o.oid for o, _ in knownhits],
                'checker_cmd': 'cbmc <gen.c> tools/cbmc_rt.c --function <entry> --unwind N ' + ' '.join(CBMC_CHECKS),
                'trusted_base': trusted_base,
                'exhaustive': False,
                'explanation': level_text,
                'solver_seconds_total': round(sum(r['solver_s'] for r in results), 2),
                'units': [{'unit': u.name, 'harness': u.src, 'lower_s': round(u.lower_s, 1), 'aliases(proved substitutions)': u.aliases, 'stubs': u.stubs,
                           'functions_encoded': u.functions[:400]} for u in used_units],
                'obligation_details': [{k: v for k, v in r.items() if k not in ('cbmc_tail',)} for r in results],
            },
            'assumptions': extra_assumptions + sorted(set(a for r in results for a in r['assumptions'])),
            'wall_s': round(time.time() - t0, 1),
            'violations': len(violations),
        }
        os.makedirs(os.path.join(VERIF, 'evidence'), exist_ok=True)
        with open(os.path.join(VERIF, 'evidence', pid + os.environ.get('VERIF_EVIDENCE_SUFFIX', '') + '.json'), 'w') as f:
            json.dump(ev, f, indent=1)
        if not os.environ.get('VERIF_EVIDENCE_SUFFIX') and not os.environ.get('VERIF_PARTIAL'):
            # archival copy per tier (evidence/<id>.json always describes the most recent run of either tier)
            os.makedirs(os.path.join(VERIF, 'evidence', tier), exist_ok=True)
            with open(os.path.join(VERIF, 'evidence', tier, pid + '.json'), 'w') as f:
                json.dump(ev, f, indent=1)
        log('%s %s: %d obligations, %d discharged, %d undecided, %d errors, %d violations, %d known; %.0fs' %
            (pid, tier, n, disc, sum(1 for r in results if r['status'] == 'undecided'), len(errors), len(violations), len(knownhits), time.time() - t0))
        if violations: return 1
        if errors: return 2
        if undecided_core: return 3
        return 0
    finally:
        if not os.environ.get('VERIF_KEEP'):
            shutil.rmtree(scratch, ignore_errors=True)
        else:
            log('scratch kept at ' + scratch)
