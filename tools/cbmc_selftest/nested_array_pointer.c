#include <stdint.h>
uint64_t A3[16][2][2];
uint64_t A2[16][4];
struct E { uint64_t x; uint64_t y[3]; } AS[16];
struct F { uint32_t k; uint64_t m[2][2]; } AF[16];
uint64_t B3[4][16][2];
unsigned nondet_u(void);
int main(void) {
  unsigned i = nondet_u(); __CPROVER_assume(i < 16);
  unsigned j = nondet_u(); __CPROVER_assume(j < 2);
  { uint64_t *p = &A2[i][2]; *p = 1; __CPROVER_assert(A2[i][2]==1, "A2[i][2]"); }
  { uint64_t *p = &AS[i].y[1]; *p = 2; __CPROVER_assert(AS[i].y[1]==2, "AS[i].y[1]"); }
  { uint64_t *p = &AS[i].y[j]; *p = 3; __CPROVER_assert(AS[i].y[j]==3, "AS[i].y[j]"); }
  { uint64_t *p = &AF[i].m[1][0]; *p = 4; __CPROVER_assert(AF[i].m[1][0]==4, "AF[i].m[1][0]"); }
  { uint64_t *p = &AF[i].m[0][1]; *p = 5; __CPROVER_assert(AF[i].m[0][1]==5, "AF[i].m[0][1]"); }
  { uint64_t *p = &AF[i].m[j][1]; *p = 6; __CPROVER_assert(AF[i].m[j][1]==6, "AF[i].m[j][1]"); }
  { uint64_t *p = &A3[i][1][1]; *p = 7; __CPROVER_assert(A3[i][1][1]==7, "A3[i][1][1]"); }
  { uint64_t *p = &A3[i][0][1]; *p = 8; __CPROVER_assert(A3[i][0][1]==8, "A3[i][0][1]"); }
  { uint64_t *p = &A3[i][j][1]; *p = 9; __CPROVER_assert(A3[i][j][1]==9, "A3[i][j][1]"); }
  { uint64_t *p = &A3[i][1][j]; *p = 10; __CPROVER_assert(A3[i][1][j]==10, "A3[i][1][j]"); }
  { uint64_t *p = &B3[1][i][0]; *p = 11; __CPROVER_assert(B3[1][i][0]==11, "B3[1][i][0]"); }
  { uint64_t *p = &B3[1][i][1]; *p = 12; __CPROVER_assert(B3[1][i][1]==12, "B3[1][i][1]"); }
  { uint64_t *p = &A3[i][1][0]; *p = 13; __CPROVER_assert(A3[i][1][0]==13, "A3[i][1][0]"); }
  return 0;
}
