#include <string.h>
#include <stdint.h>
struct S { uint64_t f0[3]; };
unsigned nondet_u(void);
int main(void) {
  struct S s; s.f0[0]=~0ULL; s.f0[1]=~0ULL; s.f0[2]=~0ULL;
  unsigned k = nondet_u(); __CPROVER_assume(k>=1 && k<=2);
  unsigned w = 3 - k;
  uint64_t *p = &s.f0[w];
  memset((void*)(uint8_t*)p, 0, (uint64_t)k*8);
  if (k==2) { __CPROVER_assert(s.f0[0]==~0ULL && s.f0[1]==0 && s.f0[2]==0, "k2"); }
  if (k==1) { __CPROVER_assert(s.f0[0]==~0ULL && s.f0[1]==~0ULL && s.f0[2]==0, "k1"); }
  return 0;
}
