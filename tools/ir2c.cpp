// ir2c: LLVM-14 IR -> C translator (for CBMC and for concrete translation validation).
// Usage: ir2c in.ll out.c [--root F]... [--alias real=model]... [--stub F]...
//             [--dyn-list out.txt]   list used non-constant globals ("name size")
//             [--data file]          natively dumped contents: lines
//                                      S name addr size      (symbol table of the native exe)
//                                      H addr size hexbytes  (heap blocks live after static init)
//                                      G name hexbytes       (bytes of a dumped global)
// Unsupported constructs abort (exit 2) - never silently skipped.
#include <llvm/IR/LLVMContext.h>
#include <llvm/IR/Module.h>
#include <llvm/IR/Function.h>
#include <llvm/IR/Instructions.h>
#include <llvm/IR/IntrinsicInst.h>
#include <llvm/IR/Constants.h>
#include <llvm/IR/DataLayout.h>
#include <llvm/IR/Operator.h>
#include <llvm/IRReader/IRReader.h>
#include <llvm/Support/SourceMgr.h>
#include <llvm/Support/raw_ostream.h>
#include <map>
#include <set>
#include <string>
#include <sstream>
#include <vector>
#include <iostream>
#include <fstream>
#include <cstdlib>

using namespace llvm;

static std::ostringstream typeDecls, typeDefs, globalsOut, protos, bodies;
static std::map<const StructType*, std::string> structNames;
static std::set<const StructType*> structDefined;
static std::set<const StructType*> pendingStructs;
static std::map<const Value*, std::string> globalNames;
static std::set<std::string> stubFuncs;
static std::set<std::string> roots;
static std::map<std::string,std::string> aliases;
static std::set<const Function*> reach;
static std::set<const GlobalVariable*> usedGlobals;
static std::set<const Function*> refFuncs;
static void collectGlobals(const Value* v, std::set<const Value*>& seen) {
    if (!seen.insert(v).second) return;
    if (auto* g = dyn_cast<GlobalVariable>(v)) { if (usedGlobals.insert(g).second && g->hasInitializer()) collectGlobals(g->getInitializer(), seen); return; }
    if (auto* f = dyn_cast<Function>(v)) { refFuncs.insert(f); return; }
    if (auto* c = dyn_cast<Constant>(v)) for (auto& o : c->operands()) collectGlobals(o.get(), seen);
}      // functions whose body is skipped
// __cxa_throw is emitted as a bare throw event (see emitCall): its operands (type_info, destructor) are not referenced
static bool isCxaThrow(const Instruction& I) {
    auto* cb = dyn_cast<CallBase>(&I); if (!cb) return false;
    const Function* c = cb->getCalledFunction();
    return c && c->getName() == "__cxa_throw" && !aliases.count("__cxa_throw");
}
static const DataLayout* DL;
static bool atomicHook = false;   // module defines verif_atomic_load64
static int anonCnt = 0;

[[noreturn]] static void die(const std::string& s) { std::cerr << "ir2c: " << s << std::endl; exit(2); }

static std::string sanitize(const std::string& n) {
    std::string r;
    for (char c : n) r += (isalnum((unsigned char)c) || c == '_') ? c : '_';
    if (r.empty() || isdigit((unsigned char)r[0])) r = "_" + r;
    return r;
}

static std::string structName(const StructType* st);
static void defineStruct(const StructType* st);

static std::string intTy(unsigned bits) {
    if (bits == 1) return "_Bool";
    if (bits <= 8) return "uint8_t";
    if (bits <= 16) return "uint16_t";
    if (bits <= 32) return "uint32_t";
    if (bits <= 64) return "uint64_t";
    if (bits <= 128) return "unsigned __int128";
    die("int width " + std::to_string(bits));
}
static std::string sintTy(unsigned bits) {
    if (bits <= 8) return "int8_t";
    if (bits <= 16) return "int16_t";
    if (bits <= 32) return "int32_t";
    if (bits <= 64) return "int64_t";
    if (bits <= 128) return "__int128";
    die("int width");
}

// Declare a C variable/field `name` of LLVM type t.
static std::string decl(Type* t, const std::string& name) {
    if (t->isIntegerTy()) return intTy(t->getIntegerBitWidth()) + " " + name;
    if (t->isDoubleTy()) return "double " + name;
    if (t->isFloatTy()) return "float " + name;
    if (t->isVoidTy()) return "void " + name;
    if (auto* pt = dyn_cast<PointerType>(t)) {
        Type* e = pt->getPointerElementType();
        if (e->isFunctionTy()) {
            auto* ft = cast<FunctionType>(e);
            std::string args;
            for (unsigned i = 0; i < ft->getNumParams(); i++) {
                if (i) args += ", ";
                args += decl(ft->getParamType(i), "");
            }
            if (ft->isVarArg() && !args.empty()) args += ", ...";
            if (args.empty() && !ft->isVarArg()) args = "void";
            return decl(ft->getReturnType(), "(*" + name + ")(" + args + ")");
        }
        if (e->isArrayTy() ) {
            // pointer to array: keep as pointer-to-array
            return decl(e, "(*" + name + ")");
        }
        if (e->isStructTy()) { pendingStructs.insert(cast<StructType>(e)); return "struct " + structName(cast<StructType>(e)) + " *" + name; }
        if (e->isVoidTy()) return "void *" + name;
        return decl(e, "*" + name);
    }
    if (auto* at = dyn_cast<ArrayType>(t)) {
        uint64_t n = at->getNumElements();
        return decl(at->getElementType(), name + "[" + std::to_string(n ? n : 1) + "]");
    }
    if (auto* st = dyn_cast<StructType>(t)) {
        defineStruct(st);
        return "struct " + structName(st) + " " + name;
    }
    std::string s; raw_string_ostream os(s); t->print(os);
    die("unsupported type " + os.str());
}
static std::string castTo(Type* t) { return "(" + decl(t, "") + ")"; }

static std::string structName(const StructType* st) {
    auto it = structNames.find(st);
    if (it != structNames.end()) return it->second;
    std::string n = st->hasName() ? sanitize(st->getName().str()) : ("anon_" + std::to_string(anonCnt++));
    structNames[st] = n;
    typeDecls << "struct " << n << ";\n";
    return n;
}
static void defineStruct(const StructType* st) {
    if (structDefined.count(st)) return;
    structDefined.insert(st);
    std::string n = structName(st);
    if (st->isOpaque()) return;
    std::ostringstream body;
    // make sure by-value member structs are defined first
    for (unsigned i = 0; i < st->getNumElements(); i++) {
        Type* et = st->getElementType(i);
        while (auto* at = dyn_cast<ArrayType>(et)) et = at->getElementType();
        if (auto* s2 = dyn_cast<StructType>(et)) defineStruct(s2);
    }
    body << "struct " << (st->isPacked() ? "__attribute__((packed)) " : "") << n << " {\n";
    if (st->getNumElements() == 0) body << "  char __empty;\n";
    for (unsigned i = 0; i < st->getNumElements(); i++)
        body << "  " << decl(st->getElementType(i), "f" + std::to_string(i)) << ";\n";
    body << "};\n";
    typeDefs << body.str();
}

struct FuncCtx {
    std::map<const Value*, std::string> names;
    int cnt = 0;
    std::ostringstream decls;
};

static std::string constExpr(const Constant* c);

static std::string gepExpr(Type* srcElemTy, const std::string& base, ArrayRef<std::string> idx, ArrayRef<const Value*> idxVals, Type** outTy = nullptr) {
    // returns C expression of pointer type to the addressed element
    std::string e = "(" + base + ")[" + idx[0] + "]";
    Type* cur = srcElemTy;
    for (size_t i = 1; i < idx.size(); i++) {
        if (auto* st = dyn_cast<StructType>(cur)) {
            auto* ci = dyn_cast<ConstantInt>(idxVals[i]);
            if (!ci) die("non-const struct index");
            unsigned k = ci->getZExtValue();
            e += ".f" + std::to_string(k);
            cur = st->getElementType(k);
        } else if (auto* at = dyn_cast<ArrayType>(cur)) {
            e += "[" + idx[i] + "]";
            cur = at->getElementType();
        } else die("bad gep");
    }
    if (outTy) *outTy = cur;
    return "&" + e;
}

static std::string apIntStr(const APInt& v, unsigned bits) {
    if (bits > 64) {
        // only small 128-bit constants supported
        if (v.getActiveBits() > 64) die("big i128 const");
        return "((unsigned __int128)" + std::to_string(v.getZExtValue()) + "ULL)";
    }
    uint64_t z = v.getZExtValue();
    if (bits == 1) return z ? "1" : "0";
    std::ostringstream os; os << "((" << intTy(bits) << ")" << z << "ULL)";
    return os.str();
}

static std::string constInit(const Constant* c) {
    // initializer syntax (brace lists allowed)
    if (isa<ConstantAggregateZero>(c)) return "{0}";
    if (auto* ca = dyn_cast<ConstantArray>(c)) {
        std::string s = "{";
        for (unsigned i = 0; i < ca->getNumOperands(); i++) { if (i) s += ","; s += constInit(ca->getOperand(i)); }
        return s + "}";
    }
    if (auto* cs = dyn_cast<ConstantStruct>(c)) {
        std::string s = "{";
        for (unsigned i = 0; i < cs->getNumOperands(); i++) { if (i) s += ","; s += constInit(cs->getOperand(i)); }
        return s + "}";
    }
    if (auto* cd = dyn_cast<ConstantDataSequential>(c)) {
        std::string s = "{";
        for (unsigned i = 0; i < cd->getNumElements(); i++) { if (i) s += ","; s += constInit(cd->getElementAsConstant(i)); }
        return s + "}";
    }
    if (isa<UndefValue>(c)) {
        if (c->getType()->isAggregateType()) return "{0}";
        return "0";
    }
    return constExpr(c);
}

static std::string constExpr(const Constant* c) {
    if (auto* ci = dyn_cast<ConstantInt>(c)) return apIntStr(ci->getValue(), ci->getBitWidth());
    if (isa<ConstantPointerNull>(c)) return "(" + castTo(c->getType()) + "0)";
    if (isa<UndefValue>(c)) {
        if (c->getType()->isPointerTy()) return "(" + castTo(c->getType()) + "0)";
        if (c->getType()->isIntegerTy() || c->getType()->isFloatingPointTy()) return "0";
        die("undef aggregate value");
    }
    if (auto* cf = dyn_cast<ConstantFP>(c)) {
        SmallString<32> s; cf->getValueAPF().toString(s, 17);
        std::string r = s.str().str();
        if (r.find_first_of(".eEn") == std::string::npos) r += ".0";
        if (cf->getType()->isDoubleTy()) {
            // exact: use hex bits
            uint64_t bits = cf->getValueAPF().bitcastToAPInt().getZExtValue();
            std::ostringstream os; os << "__ir_bits2double(" << bits << "ULL)";
            return os.str();
        }
        return r;
    }
    if (auto* gv = dyn_cast<GlobalValue>(c)) {
        auto it = globalNames.find(gv);
        std::string n = it != globalNames.end() ? it->second : sanitize(gv->getName().str());
        if (isa<Function>(gv)) return n;
        return "(&" + n + ")";
    }
    if (auto* ce = dyn_cast<ConstantExpr>(c)) {
        switch (ce->getOpcode()) {
        case Instruction::BitCast: case Instruction::AddrSpaceCast:
            return "(" + castTo(ce->getType()) + constExpr(ce->getOperand(0)) + ")";
        case Instruction::GetElementPtr: {
            auto* gep = cast<GEPOperator>(ce);
            std::vector<std::string> idx; std::vector<const Value*> iv;
            for (auto it = gep->idx_begin(); it != gep->idx_end(); ++it) {
                iv.push_back(*it);
                auto* ci = dyn_cast<ConstantInt>(*it);
                if (!ci) die("non-const gep const index");
                idx.push_back(std::to_string(ci->getSExtValue()));
            }
            return "(" + gepExpr(gep->getSourceElementType(), constExpr(cast<Constant>(gep->getPointerOperand())), idx, iv) + ")";
        }
        case Instruction::PtrToInt:
            return "(" + castTo(ce->getType()) + "(uintptr_t)" + constExpr(ce->getOperand(0)) + ")";
        case Instruction::IntToPtr:
            return "(" + castTo(ce->getType()) + "(uintptr_t)" + constExpr(ce->getOperand(0)) + ")";
        default: break;
        }
        std::string s; raw_string_ostream os(s); ce->print(os);
        die("unsupported constexpr " + os.str());
    }
    std::string s; raw_string_ostream os(s); c->print(os);
    die("unsupported constant " + os.str());
}

static std::string val(FuncCtx& fc, const Value* v) {
    if (auto* c = dyn_cast<Constant>(v)) return constExpr(c);
    auto it = fc.names.find(v);
    if (it == fc.names.end()) { std::string s; raw_string_ostream os(s); v->print(os); die("unnamed value " + os.str()); }
    return it->second;
}
static std::string sval(FuncCtx& fc, const Value* v) { // signed view
    unsigned b = v->getType()->getIntegerBitWidth();
    if (b == 1) return "(" + val(fc, v) + "?-1:0)";
    std::string e = "((" + sintTy(b) + ")" + val(fc, v) + ")";
    unsigned cb = b <= 8 ? 8 : b <= 16 ? 16 : b <= 32 ? 32 : b <= 64 ? 64 : 128;
    if (cb != b) die("odd width signed " + std::to_string(b));
    return e;
}
static unsigned cwidth(unsigned b) { return b == 1 ? 1 : b <= 8 ? 8 : b <= 16 ? 16 : b <= 32 ? 32 : b <= 64 ? 64 : 128; }
static std::string maskTo(unsigned b, const std::string& e) {
    if (b == 1 || cwidth(b) == b) return e;
    uint64_t m = (b >= 64) ? ~0ULL : ((1ULL << b) - 1);
    return "((" + e + ") & " + std::to_string(m) + "ULL)";
}

static std::string fname(const Function* f) {
    auto it = aliases.find(f->getName().str());
    if (it != aliases.end()) return it->second;
    static const std::map<std::string, std::string> builtin = {
        {"_Znwm", "malloc"}, {"_Znam", "malloc"}, {"_ZdlPv", "__ir_delete1"}, {"_ZdaPv", "__ir_delete1"},
        {"_ZdlPvm", "__ir_delete2"}, {"_ZdaPvm", "__ir_delete2"}, {"__cxa_allocate_exception", "__ir_alloc_exception"},
        {"_ZSt17__throw_bad_allocv", "__ir_throw0"}, {"_ZSt20__throw_length_errorPKc", "__ir_throw1"}, {"_ZSt24__throw_out_of_range_fmtPKcz", "__ir_throw1"},
        {"_ZSt19__throw_logic_errorPKc", "__ir_throw1"}, {"_ZSt20__throw_out_of_rangePKc", "__ir_throw1"}, {"_ZSt25__throw_bad_function_callv", "__ir_throw0"},
        {"_ZSt28__throw_bad_array_new_lengthv", "__ir_throw0"}, {"__cxa_pure_virtual", "__ir_pure_virtual"}, {"_ZSt9terminatev", "__ir_throw0"}, {"__assert_fail", "__ir_assert_fail"}};
    auto b = builtin.find(f->getName().str());
    if (b != builtin.end()) return b->second;
    return sanitize(f->getName().str());
}

static bool skipIntrinsic(const Function* f) {
    if (!f) return false;
    StringRef n = f->getName();
    return n.startswith("llvm.dbg.") || n.startswith("llvm.lifetime.") || n.startswith("llvm.experimental.noalias") ||
           n.startswith("llvm.assume") || n.startswith("llvm.invariant.") || n.startswith("llvm.prefetch");
}

static void emitCall(FuncCtx& fc, std::ostringstream& out, const CallBase* cb) {
    const Function* callee = cb->getCalledFunction();
    if (skipIntrinsic(callee)) return;
    // __cxa_throw: the throw event already happened at __cxa_allocate_exception; do not reference type_info objects / destructors
    if (callee && callee->getName() == "__cxa_throw" && !aliases.count("__cxa_throw")) { out << "  __ir_throw0();\n"; return; }
    std::string lhs;
    if (!cb->getType()->isVoidTy()) lhs = val(fc, cb) + " = ";
    std::vector<std::string> args;
    for (unsigned i = 0; i < cb->arg_size(); i++) args.push_back(val(fc, cb->getArgOperand(i)));
    if (callee && callee->isIntrinsic()) {
        StringRef n = callee->getName();
        if (skipIntrinsic(callee)) return;
        auto bits = [&](const Value* v) { return v->getType()->getIntegerBitWidth(); };
        // constant length: C library call (CBMC's model is exact there); symbolic length: explicit byte loop
        // (CBMC 6.11 mis-models memset/memcpy with a symbolic length at a symbolic offset inside a struct member array)
        bool constLen = n.startswith("llvm.mem") && isa<ConstantInt>(cb->getArgOperand(2));
        if (n.startswith("llvm.memcpy")) { out << "  " << (constLen ? "memmove" /* llvm.memcpy allows dst == src (struct self-assignment); C memcpy does not */ : "__ir_memcpy_n" /* forward byte copy: correct for disjoint and for identical regions */) << "((void*)" << args[0] << ", (const void*)" << args[1] << ", " << args[2] << ");\n"; return; }
        if (n.startswith("llvm.memmove")) { out << "  " << (constLen ? "memmove" : "__ir_memmove_n") << "((void*)" << args[0] << ", (const void*)" << args[1] << ", " << args[2] << ");\n"; return; }
        if (n.startswith("llvm.memset")) { out << "  " << (constLen ? "memset" : "__ir_memset_n") << "((void*)" << args[0] << ", " << args[1] << ", " << args[2] << ");\n"; return; }
        if (n.startswith("llvm.cttz")) { out << "  " << lhs << "__ir_cttz" << bits(cb) << "(" << args[0] << ");\n"; return; }
        if (n.startswith("llvm.ctlz")) { out << "  " << lhs << "__ir_ctlz" << bits(cb) << "(" << args[0] << ");\n"; return; }
        if (n.startswith("llvm.ctpop")) { out << "  " << lhs << "__ir_ctpop" << bits(cb) << "(" << args[0] << ");\n"; return; }
        if (n.startswith("llvm.smax")) { out << "  " << lhs << "(" << sval(fc, cb->getArgOperand(0)) << " > " << sval(fc, cb->getArgOperand(1)) << ") ? " << args[0] << " : " << args[1] << ";\n"; return; }
        if (n.startswith("llvm.smin")) { out << "  " << lhs << "(" << sval(fc, cb->getArgOperand(0)) << " < " << sval(fc, cb->getArgOperand(1)) << ") ? " << args[0] << " : " << args[1] << ";\n"; return; }
        if (n.startswith("llvm.umax")) { out << "  " << lhs << "(" << args[0] << " > " << args[1] << ") ? " << args[0] << " : " << args[1] << ";\n"; return; }
        if (n.startswith("llvm.umin")) { out << "  " << lhs << "(" << args[0] << " < " << args[1] << ") ? " << args[0] << " : " << args[1] << ";\n"; return; }
        if (n.startswith("llvm.abs")) { out << "  " << lhs << "(" << sval(fc, cb->getArgOperand(0)) << " < 0) ? (" << intTy(bits(cb)) << ")(0 - " << args[0] << ") : " << args[0] << ";\n"; return; }
        if (n.startswith("llvm.fabs")) { out << "  " << lhs << "fabs(" << args[0] << ");\n"; return; }
        if (n.startswith("llvm.bswap")) { out << "  " << lhs << "__builtin_bswap" << bits(cb) << "(" << args[0] << ");\n"; return; }
        if (n.startswith("llvm.fshl")) { unsigned b = bits(cb); out << "  " << lhs << "__ir_fshl" << b << "(" << args[0] << "," << args[1] << "," << args[2] << ");\n"; return; }
        if (n.startswith("llvm.trap")) { out << "  __ir_trap();\n"; return; }
        die("unsupported intrinsic " + n.str());
    }
    std::string fn;
    if (callee) fn = fname(callee);
    else fn = "(" + val(fc, cb->getCalledOperand()) + ")";
    out << "  " << lhs << fn << "(";
    for (size_t i = 0; i < args.size(); i++) { if (i) out << ", "; out << args[i]; }
    out << ");\n";
}

static void emitFunction(const Function& F, bool protoOnly = false) {
    FuncCtx fc;
    std::ostringstream out;
    // signature
    std::string args;
    int ai = 0;
    for (auto& a : F.args()) {
        std::string n = "a" + std::to_string(ai++);
        fc.names[&a] = n;
        if (!args.empty()) args += ", ";
        args += decl(a.getType(), n);
    }
    if (F.isVarArg() && !args.empty()) args += ", ...";
    if (args.empty() && !F.isVarArg()) args = "void";
    std::string sig = decl(F.getReturnType(), fname(&F) + "(" + args + ")");
    if (!aliases.count(F.getName().str()) && !F.getName().startswith("__CPROVER_")) protos << sig << ";\n";
    if (protoOnly && !F.isDeclaration() && !aliases.count(F.getName().str()) && !stubFuncs.count(F.getName().str())) {
        // address taken (vtable slot, callback) but body not lowered: an indirect call that reaches it must not pass
        // silently as a side-effect-free nondet call - make it an explicit event (add the function to the unit's extra_roots)
        bodies << sig << " {\n  __ir_trap();\n";
        if (!F.getReturnType()->isVoidTy()) bodies << "  { " << decl(F.getReturnType(), "r") << "; memset(&r, 0, sizeof r); return r; }\n";
        bodies << "}\n";
        return;
    }
    if (protoOnly || F.isDeclaration() || stubFuncs.count(F.getName().str())) return;

    // name all values & blocks
    std::map<const BasicBlock*, std::string> bbn;
    int bi = 0;
    for (auto& BB : F) {
        bbn[&BB] = "bb" + std::to_string(bi++);
        for (auto& I : BB) {
            if (I.getType()->isVoidTy()) continue;
            std::string n = "v" + std::to_string(fc.cnt++);
            fc.names[&I] = n;
            if (auto* al = dyn_cast<AllocaInst>(&I)) {
                // storage + pointer
                auto* ci = dyn_cast<ConstantInt>(al->getArraySize());
                if (!ci) die("variable alloca");
                uint64_t cntv = ci->getZExtValue();
                std::string sn = n + "_mem";
                if (cntv == 1) fc.decls << "  " << decl(al->getAllocatedType(), sn) << ";\n";
                else fc.decls << "  " << decl(al->getAllocatedType(), sn + "[" + std::to_string(cntv) + "]") << ";\n";
                fc.decls << "  " << decl(I.getType(), n) << " = " << (cntv == 1 ? "&" : "") << sn << (cntv == 1 ? "" : "") << ";\n";
                if (cntv != 1) ;
                continue;
            }
            fc.decls << "  " << decl(I.getType(), n) << ";\n";
            if (isa<PHINode>(&I)) fc.decls << "  " << decl(I.getType(), n + "_phi") << ";\n";
        }
    }
    auto phiCopies = [&](const BasicBlock* from, const BasicBlock* to) {
        std::string s;
        for (auto& I : *to) {
            auto* phi = dyn_cast<PHINode>(&I);
            if (!phi) break;
            const Value* in = phi->getIncomingValueForBlock(from);
            if (isa<UndefValue>(in)) continue;
            s += "    " + fc.names[phi] + "_phi = " + val(fc, in) + ";\n";
        }
        return s;
    };
    auto jump = [&](const BasicBlock* from, const BasicBlock* to) {
        return "{\n" + phiCopies(from, to) + "    goto " + bbn[to] + "; }";
    };

    for (auto& BB : F) {
        out << bbn[&BB] << ": ;\n";
        for (auto& I : BB) {
            if (auto* phi = dyn_cast<PHINode>(&I)) { out << "  " << fc.names[phi] << " = " << fc.names[phi] << "_phi;\n"; continue; }
            if (isa<AllocaInst>(&I)) continue;
            std::string L = I.getType()->isVoidTy() ? "" : fc.names[&I];
            auto op = [&](unsigned i) { return val(fc, I.getOperand(i)); };
            if (auto* bo = dyn_cast<BinaryOperator>(&I)) {
                if (I.getType()->isFloatingPointTy()) {
                    const char* o = nullptr;
                    switch (bo->getOpcode()) { case Instruction::FAdd: o = "+"; break; case Instruction::FSub: o = "-"; break;
                        case Instruction::FMul: o = "*"; break; case Instruction::FDiv: o = "/"; break; default: die("fp binop"); }
                    out << "  " << L << " = " << op(0) << " " << o << " " << op(1) << ";\n"; continue;
                }
                unsigned b = I.getType()->getIntegerBitWidth();
                std::string T = intTy(b);
                bool nsw = false, nuw = false;
                if (auto* obo = dyn_cast<OverflowingBinaryOperator>(bo)) { nsw = obo->hasNoSignedWrap(); nuw = obo->hasNoUnsignedWrap(); }
                std::string e;
                auto U = [&](unsigned i) { return b < 32 ? "((uint32_t)" + op(i) + ")" : op(i); }; // avoid int promotion surprises
                auto S = [&](unsigned i) { return sval(fc, I.getOperand(i)); };
                // ptrtoint(P) - ptrtoint(Q) (what C++ pointer subtraction lowers to): same value, but written so that CBMC's
                // simplifier can fold it when both point into the same object (offset difference); see __IR_PTRDIFF
                if (bo->getOpcode() == Instruction::Sub && b == 64 && isa<PtrToIntInst>(bo->getOperand(0)) && isa<PtrToIntInst>(bo->getOperand(1))) {
                    out << "  " << L << " = __IR_PTRDIFF(" << val(fc, cast<PtrToIntInst>(bo->getOperand(0))->getOperand(0))
                        << ", " << val(fc, cast<PtrToIntInst>(bo->getOperand(1))->getOperand(0)) << ");\n";
                    continue;
                }
                switch (bo->getOpcode()) {
                case Instruction::Add: e = (nsw && b >= 32) ? "(" + T + ")(" + S(0) + " + " + S(1) + ")" : U(0) + " + " + U(1); break;
                case Instruction::Sub: e = (nsw && b >= 32) ? "(" + T + ")(" + S(0) + " - " + S(1) + ")" : U(0) + " - " + U(1); break;
                case Instruction::Mul: e = (nsw && b >= 32) ? "(" + T + ")(" + S(0) + " * " + S(1) + ")" : U(0) + " * " + U(1); break;
                case Instruction::UDiv: e = U(0) + " / " + U(1); break;
                case Instruction::URem: e = U(0) + " % " + U(1); break;
                case Instruction::SDiv: e = "(" + T + ")(" + S(0) + " / " + S(1) + ")"; break;
                case Instruction::SRem: e = "(" + T + ")(" + S(0) + " % " + S(1) + ")"; break;
                case Instruction::And: e = op(0) + " & " + op(1); break;
                case Instruction::Or:  e = op(0) + " | " + op(1); break;
                case Instruction::Xor: e = op(0) + " ^ " + op(1); break;
                case Instruction::Shl: {
                    // "shl nsw x, C" is how -O1 writes the signed multiplication x * 2^C: keep it a signed
                    // multiplication so that the overflow check sees the UB of the C++ source
                    auto* ci = dyn_cast<ConstantInt>(bo->getOperand(1));
                    if (nsw && b >= 32 && ci && ci->getZExtValue() + 2 <= b)
                        e = "(" + T + ")(" + S(0) + " * ((" + std::string(b == 32 ? "int32_t" : "int64_t") + ")1 << " + std::to_string(ci->getZExtValue()) + "))";
                    else e = U(0) + " << " + op(1);
                    break; }
                case Instruction::LShr: e = U(0) + " >> " + op(1); break;
                case Instruction::AShr: e = "(" + T + ")(" + S(0) + " >> " + op(1) + ")"; break;
                default: die("binop");
                }
                (void)nuw;
                out << "  " << L << " = " << maskTo(b, "(" + T + ")(" + e + ")") << ";\n";
                continue;
            }
            if (auto* ic = dyn_cast<ICmpInst>(&I)) {
                bool ptr = ic->getOperand(0)->getType()->isPointerTy();
                std::string a, bb2; const char* o;
                bool sg = ic->isSigned();
                if (ptr) { a = "(uintptr_t)" + op(0); bb2 = "(uintptr_t)" + op(1); if (ic->isEquality()) { a = "(void*)" + op(0); bb2 = "(void*)" + op(1);} }
                else if (sg) { a = sval(fc, ic->getOperand(0)); bb2 = sval(fc, ic->getOperand(1)); }
                else { a = op(0); bb2 = op(1); }
                switch (ic->getPredicate()) {
                case CmpInst::ICMP_EQ: o = "=="; break; case CmpInst::ICMP_NE: o = "!="; break;
                case CmpInst::ICMP_UGT: case CmpInst::ICMP_SGT: o = ">"; break;
                case CmpInst::ICMP_UGE: case CmpInst::ICMP_SGE: o = ">="; break;
                case CmpInst::ICMP_ULT: case CmpInst::ICMP_SLT: o = "<"; break;
                case CmpInst::ICMP_ULE: case CmpInst::ICMP_SLE: o = "<="; break;
                default: die("icmp");
                }
                out << "  " << L << " = (" << a << " " << o << " " << bb2 << ");\n"; continue;
            }
            if (auto* fcmp = dyn_cast<FCmpInst>(&I)) {
                const char* o = nullptr; bool unord = false;
                switch (fcmp->getPredicate()) {
                case CmpInst::FCMP_OEQ: o = "=="; break; case CmpInst::FCMP_OGT: o = ">"; break; case CmpInst::FCMP_OGE: o = ">="; break;
                case CmpInst::FCMP_OLT: o = "<"; break; case CmpInst::FCMP_OLE: o = "<="; break; case CmpInst::FCMP_UNE: o = "!="; break;
                case CmpInst::FCMP_UGT: o = ">"; unord = true; break; case CmpInst::FCMP_UGE: o = ">="; unord = true; break;
                case CmpInst::FCMP_ULT: o = "<"; unord = true; break; case CmpInst::FCMP_ULE: o = "<="; unord = true; break;
                case CmpInst::FCMP_ONE: out << "  " << L << " = (" << op(0) << " < " << op(1) << ") || (" << op(0) << " > " << op(1) << ");\n"; continue;
                default: die("fcmp pred");
                }
                if (unord) out << "  " << L << " = (" << op(0) << " != " << op(0) << ") || (" << op(1) << " != " << op(1) << ") || (" << op(0) << " " << o << " " << op(1) << ");\n";
                else out << "  " << L << " = (" << op(0) << " " << o << " " << op(1) << ");\n";
                continue;
            }
            if (auto* si = dyn_cast<SelectInst>(&I)) { out << "  " << L << " = " << op(0) << " ? " << op(1) << " : " << op(2) << ";\n"; continue; }
            if (auto* ci = dyn_cast<CastInst>(&I)) {
                Type* dt = I.getType(); Type* st = ci->getOperand(0)->getType();
                switch (ci->getOpcode()) {
                case Instruction::ZExt: out << "  " << L << " = " << castTo(dt) << op(0) << ";\n"; break;
                case Instruction::SExt: out << "  " << L << " = " << maskTo(dt->getIntegerBitWidth(), castTo(dt) + "(" + sintTy(dt->getIntegerBitWidth()) + ")" + sval(fc, ci->getOperand(0))) << ";\n"; break;
                case Instruction::Trunc: {
                    unsigned b = dt->getIntegerBitWidth();
                    if (b == 1) out << "  " << L << " = (" << op(0) << " & 1) != 0;\n";
                    else out << "  " << L << " = " << maskTo(b, castTo(dt) + op(0)) << ";\n";
                    break; }
                case Instruction::BitCast:
                    if (dt->isPointerTy()) out << "  " << L << " = " << castTo(dt) << op(0) << ";\n";
                    else if (dt->isDoubleTy() && st->isIntegerTy()) out << "  " << L << " = __ir_bits2double(" << op(0) << ");\n";
                    else if (dt->isIntegerTy() && st->isDoubleTy()) out << "  " << L << " = __ir_double2bits(" << op(0) << ");\n";
                    else die("bitcast");
                    break;
                case Instruction::PtrToInt: out << "  " << L << " = " << castTo(dt) << "(uintptr_t)" << op(0) << ";\n"; break;
                case Instruction::IntToPtr: out << "  " << L << " = " << castTo(dt) << "(uintptr_t)" << op(0) << ";\n"; break;
                case Instruction::SIToFP: out << "  " << L << " = " << castTo(dt) << sval(fc, ci->getOperand(0)) << ";\n"; break;
                case Instruction::UIToFP: out << "  " << L << " = " << castTo(dt) << op(0) << ";\n"; break;
                case Instruction::FPToSI: {
                    // out-of-range float->int conversion is UB in the source: checked helper for the common widths
                    unsigned b = dt->getIntegerBitWidth();
                    if ((b == 32 || b == 64) && (st->isDoubleTy() || st->isFloatTy()))
                        out << "  " << L << " = " << castTo(dt) << "__ir_fptosi" << b << "(" << op(0) << ");\n";
                    else out << "  " << L << " = " << castTo(dt) << "(" << sintTy(b) << ")" << op(0) << ";\n";
                    break; }
                case Instruction::FPToUI: out << "  " << L << " = " << castTo(dt) << op(0) << ";\n"; break;
                case Instruction::FPExt: case Instruction::FPTrunc: out << "  " << L << " = " << castTo(dt) << op(0) << ";\n"; break;
                default: die("cast op");
                }
                continue;
            }
            if (auto* gep = dyn_cast<GetElementPtrInst>(&I)) {
                std::vector<std::string> idx; std::vector<const Value*> iv;
                for (auto it = gep->idx_begin(); it != gep->idx_end(); ++it) {
                    iv.push_back(*it);
                    if (auto* c = dyn_cast<ConstantInt>(*it)) idx.push_back(std::to_string(c->getSExtValue()));
                    else idx.push_back(sval(fc, *it));
                }
                out << "  " << L << " = " << castTo(I.getType()) << gepExpr(gep->getSourceElementType(), op(0), idx, iv) << ";\n";
                continue;
            }
            // CBMC 6.11 mis-resolves the dereference of a pointer VALUE whose symbolic offset lands on the first element of a
            // nested sub-array (e.g. p = &A[i][1][0]; *p): the access is lost.  Direct lvalue indexing (A[i][1][0] = x) is
            // handled correctly, so loads/stores whose address is a GEP are emitted as lvalue expressions of that GEP.
            auto lval = [&](const Value* ptr) -> std::string {
                if (auto* g = dyn_cast<GetElementPtrInst>(ptr)) {
                    std::vector<std::string> idx; std::vector<const Value*> iv;
                    for (auto it = g->idx_begin(); it != g->idx_end(); ++it) {
                        iv.push_back(*it);
                        if (auto* c = dyn_cast<ConstantInt>(*it)) idx.push_back(std::to_string(c->getSExtValue()));
                        else idx.push_back(sval(fc, *it));
                    }
                    std::string a = gepExpr(g->getSourceElementType(), val(fc, g->getPointerOperand()), idx, iv);   // "&expr"
                    return "(" + a.substr(1) + ")";
                }
                return "*" + val(fc, ptr);
            };
            if (auto* ld = dyn_cast<LoadInst>(&I)) {
                // optional harness hook: every atomic 64-bit load is its own event (models concurrent writers)
                if (ld->isAtomic() && I.getType()->isIntegerTy(64) && atomicHook && F.getName() != "verif_atomic_load64") { out << "  " << L << " = verif_atomic_load64((uint64_t*)" << op(0) << ");\n"; continue; }
                out << "  " << L << " = " << lval(ld->getPointerOperand()) << ";\n"; continue; }
            if (auto* st = dyn_cast<StoreInst>(&I)) { out << "  " << lval(st->getPointerOperand()) << " = " << op(0) << ";\n"; continue; }
            if (auto* br = dyn_cast<BranchInst>(&I)) {
                if (br->isUnconditional()) out << "  " << jump(&BB, br->getSuccessor(0)) << "\n";
                else out << "  if (" << op(0) << ") " << jump(&BB, br->getSuccessor(0)) << " else " << jump(&BB, br->getSuccessor(1)) << "\n";
                continue;
            }
            if (auto* sw = dyn_cast<SwitchInst>(&I)) {
                out << "  switch (" << op(0) << ") {\n";
                for (auto c : sw->cases())
                    out << "  case " << apIntStr(c.getCaseValue()->getValue(), c.getCaseValue()->getBitWidth()) << ": " << jump(&BB, c.getCaseSuccessor()) << "\n";
                out << "  default: " << jump(&BB, sw->getDefaultDest()) << "\n  }\n";
                continue;
            }
            if (auto* ri = dyn_cast<ReturnInst>(&I)) {
                if (ri->getNumOperands()) out << "  return " << op(0) << ";\n"; else out << "  return;\n";
                continue;
            }
            if (isa<UnreachableInst>(&I)) { out << "  __ir_unreachable();\n"; continue; }
            if (auto* inv = dyn_cast<InvokeInst>(&I)) {
                emitCall(fc, out, inv);
                out << "  " << jump(&BB, inv->getNormalDest()) << "\n";
                continue;
            }
            if (auto* call = dyn_cast<CallInst>(&I)) { emitCall(fc, out, call); continue; }
            if (isa<LandingPadInst>(&I)) { out << "  __ir_landingpad();\n"; continue; }
            if (isa<ResumeInst>(&I)) { out << "  __ir_resume();\n"; continue; }
            if (auto* fr = dyn_cast<FreezeInst>(&I)) { out << "  " << L << " = " << op(0) << ";\n"; continue; }
            if (auto* ev = dyn_cast<ExtractValueInst>(&I)) {
                std::string e = op(0); Type* cur = ev->getAggregateOperand()->getType();
                for (unsigned k : ev->indices()) { if (cur->isStructTy()) { e += ".f" + std::to_string(k); cur = cast<StructType>(cur)->getElementType(k);} else die("extractvalue array"); }
                out << "  " << L << " = " << e << ";\n"; continue;
            }
            if (auto* iv = dyn_cast<InsertValueInst>(&I)) {
                std::string a = isa<UndefValue>(iv->getAggregateOperand()) ? "" : op(0);
                if (!a.empty()) out << "  " << L << " = " << a << ";\n";
                std::string e = L; Type* cur = I.getType();
                for (unsigned k : iv->indices()) { if (cur->isStructTy()) { e += ".f" + std::to_string(k); cur = cast<StructType>(cur)->getElementType(k);} else die("insertvalue array"); }
                out << "  " << e << " = " << op(1) << ";\n"; continue;
            }
            if (isa<FenceInst>(&I)) continue;
            if (auto* rmw = dyn_cast<AtomicRMWInst>(&I)) {
                // single-threaded harnesses: atomic read-modify-write as a plain sequence
                std::string p = op(0), v = op(1); const char* o = nullptr;
                switch (rmw->getOperation()) {
                case AtomicRMWInst::Xchg: o = ""; break; case AtomicRMWInst::Add: o = "+"; break; case AtomicRMWInst::Sub: o = "-"; break;
                case AtomicRMWInst::And: o = "&"; break; case AtomicRMWInst::Or: o = "|"; break; case AtomicRMWInst::Xor: o = "^"; break;
                default: die("atomicrmw op");
                }
                out << "  " << L << " = *" << p << ";\n";
                if (!*o) out << "  *" << p << " = " << v << ";\n";
                else out << "  *" << p << " = " << castTo(I.getType()) << "(" << L << " " << o << " " << v << ");\n";
                continue;
            }
            if (auto* cx = dyn_cast<AtomicCmpXchgInst>(&I)) {
                std::string p = op(0), c = op(1), n = op(2);
                out << "  " << L << ".f0 = *" << p << ";\n  " << L << ".f1 = (" << L << ".f0 == " << c << ");\n  if (" << L << ".f1) *" << p << " = " << n << ";\n";
                continue;
            }
            if (I.getOpcode() == Instruction::FNeg) { out << "  " << L << " = -" << op(0) << ";\n"; continue; }
            std::string s; raw_string_ostream os(s); I.print(os);
            die("unsupported instruction " + os.str());
        }
    }
    bodies << sig << " {\n" << fc.decls.str() << out.str() << "}\n\n";
}


// ---------------------------------------------------------------------------------------------
// Natively dumped data (run-time initialised tables): bytes -> typed C initialisers
// ---------------------------------------------------------------------------------------------
struct Sym { std::string name; uint64_t addr, size; };
static std::vector<Sym> syms;                 // sorted by addr
struct HeapBlk { uint64_t addr, size; std::vector<uint8_t> bytes; std::map<uint64_t, Type*> cuts; };
static std::vector<HeapBlk> heaps;
static std::map<std::string, std::vector<uint8_t>> gbytes;
static std::map<std::string, const GlobalVariable*> gvByName;
static std::map<std::string, const Function*> fnByName;
static bool heapChanged = false;

static std::vector<uint8_t> unhex(const std::string& h) {
    std::vector<uint8_t> r; r.reserve(h.size() / 2);
    auto v = [](char c) { return c <= '9' ? c - '0' : (c | 32) - 'a' + 10; };
    for (size_t i = 0; i + 1 < h.size(); i += 2) r.push_back((uint8_t)(v(h[i]) * 16 + v(h[i + 1])));
    return r;
}
static uint64_t rdLE(const uint8_t* p, unsigned n) { uint64_t v = 0; for (unsigned i = 0; i < n; i++) v |= (uint64_t)p[i] << (8 * i); return v; }

static std::string heapSegName(size_t k, uint64_t off) { return "__heap_" + std::to_string(k) + "_" + std::to_string(off); }

// C expression for pointer value v of LLVM pointer type pt. collect=true: only record heap cuts.
static std::string ptrExpr(uint64_t v, PointerType* pt, bool collect) {
    std::string cast = collect ? "" : castTo(pt);
    if (v == 0) return "(" + cast + "0)";
    for (size_t k = 0; k < heaps.size(); k++) {
        HeapBlk& h = heaps[k];
        if (v >= h.addr && v <= h.addr + h.size) {
            uint64_t off = v - h.addr;
            if (off < h.size) {
                Type* e = pt->getPointerElementType();
                if (!e->isSized() || e->isFunctionTy()) e = Type::getInt8Ty(pt->getContext());
                if (!h.cuts.count(off)) { h.cuts[off] = e; heapChanged = true; }
                if (collect) return "";
                return "(" + cast + heapSegName(k, off) + ")";
            }
            // one-past-the-end pointer: express relative to the last segment
            if (collect) { if (!h.cuts.count(0)) { h.cuts[0] = Type::getInt8Ty(pt->getContext()); heapChanged = true; } return ""; }
            uint64_t s = h.cuts.rbegin()->first;
            return "(" + cast + "((char*)" + heapSegName(k, s) + " + " + std::to_string(off - s) + "))";
        }
    }
    // symbol lookup
    auto it = std::upper_bound(syms.begin(), syms.end(), v, [](uint64_t a, const Sym& s) { return a < s.addr; });
    while (it != syms.begin()) {
        --it;
        if (v >= it->addr && (v < it->addr + it->size || (it->size == 0 && v == it->addr) || v == it->addr + it->size)) {
            if (v == it->addr + it->size && it->size != 0) { // one past end of a global: still express relative to it
            }
            auto g = gvByName.find(it->name);
            if (g != gvByName.end()) {
                if (collect) { std::set<const Value*> seen; collectGlobals(g->second, seen); return ""; }
                uint64_t off = v - it->addr;
                std::string n = globalNames[g->second];
                if (off == 0) return "(" + cast + "&" + n + ")";
                return "(" + cast + "((char*)&" + n + " + " + std::to_string(off) + "))";
            }
            auto f = fnByName.find(it->name);
            if (f != fnByName.end() && v == it->addr) {
                if (collect) { refFuncs.insert(f->second); return ""; }
                return "(" + cast + fname(f->second) + ")";
            }
            break;
        }
        if (v > it->addr + it->size + 4096) break;
    }
    if (collect) return "";
    // Unresolvable (libc/libstdc++ object, stack, ...): an integer address CBMC will refuse to dereference.
    return "(" + cast + "(uintptr_t)0xDEAD0000UL)";
}

static std::string fpLiteral(double d) { char buf[64]; snprintf(buf, sizeof buf, "%a", d); return buf; }

static std::string bytesInit(Type* t, const uint8_t* p, bool collect) {
    if (t->isIntegerTy()) {
        unsigned b = t->getIntegerBitWidth(); unsigned n = (unsigned)DL->getTypeStoreSize(t);
        if (collect) return "";
        if (n > 8) die("wide int in dumped data");
        uint64_t v = rdLE(p, n);
        if (b < 64) v &= ((1ULL << b) - 1);
        return std::to_string(v) + (b > 32 ? "ULL" : "U");
    }
    if (t->isDoubleTy()) { if (collect) return ""; uint64_t v = rdLE(p, 8); double d; memcpy(&d, &v, 8); return fpLiteral(d); }
    if (t->isFloatTy()) { if (collect) return ""; uint32_t v = (uint32_t)rdLE(p, 4); float f; memcpy(&f, &v, 4); return fpLiteral(f) + std::string("f"); }
    if (auto* pt = dyn_cast<PointerType>(t)) return ptrExpr(rdLE(p, 8), pt, collect);
    if (auto* at = dyn_cast<ArrayType>(t)) {
        uint64_t n = at->getNumElements(); uint64_t es = DL->getTypeAllocSize(at->getElementType());
        std::string s = "{";
        for (uint64_t i = 0; i < n; i++) { std::string e = bytesInit(at->getElementType(), p + i * es, collect); if (!collect) { if (i) s += ","; s += e; } }
        if (n == 0) s += "0";
        return s + "}";
    }
    if (auto* st = dyn_cast<StructType>(t)) {
        const StructLayout* sl = DL->getStructLayout(st);
        std::string s = "{";
        for (unsigned i = 0; i < st->getNumElements(); i++) {
            std::string e = bytesInit(st->getElementType(i), p + sl->getElementOffset(i), collect);
            if (!collect) { if (i) s += ","; s += e; }
        }
        if (st->getNumElements() == 0) s += "0";
        return s + "}";
    }
    die("unsupported type in dumped data");
}

static void loadData(const std::string& file) {
    std::ifstream in(file);
    if (!in) die("cannot open data file " + file);
    std::string line;
    while (std::getline(in, line)) {
        std::istringstream is(line); std::string k; is >> k;
        if (k == "S") { Sym s; is >> s.name >> std::hex >> s.addr >> s.size; syms.push_back(s); }
        else if (k == "H") { HeapBlk h; std::string hx; is >> std::hex >> h.addr >> h.size >> hx; h.bytes = unhex(hx); if (h.bytes.size() != h.size) die("heap block size mismatch"); heaps.push_back(std::move(h)); }
        else if (k == "G") { std::string n, hx; is >> n >> hx; gbytes[n] = unhex(hx); }
        else if (!k.empty()) die("bad data line");
    }
    std::sort(syms.begin(), syms.end(), [](const Sym& a, const Sym& b) { return a.addr < b.addr; });
}

int main(int argc, char** argv) {
    if (argc < 3) die("usage: ir2c in.ll out.c [--root F] [--alias real=model] [--stub F] [--dyn-list file] [--data file]");
    std::string dynList, dataFile, rewriteOut, externalsOut;
    for (int i = 3; i < argc; i++) {
        std::string a = argv[i];
        if (a == "--stub" && i + 1 < argc) stubFuncs.insert(argv[++i]);
        else if (a == "--root" && i + 1 < argc) roots.insert(argv[++i]);
        else if (a == "--alias" && i + 1 < argc) { std::string v = argv[++i]; auto e = v.find('='); aliases[v.substr(0,e)] = v.substr(e+1); stubFuncs.insert(v.substr(0,e)); }
        else if (a == "--dyn-list" && i + 1 < argc) dynList = argv[++i];
        else if (a == "--data" && i + 1 < argc) dataFile = argv[++i];
        else if (a == "--rewrite" && i + 1 < argc) rewriteOut = argv[++i];
        else if (a == "--externals" && i + 1 < argc) externalsOut = argv[++i];
        else die("bad arg " + a);
    }
    LLVMContext ctx; SMDiagnostic err;
    auto M = parseIRFile(argv[1], err, ctx);
    if (!M) { err.print("ir2c", errs()); return 2; }
    DL = &M->getDataLayout();
    {   // resolve function aliases (e.g. C1 = alias of C2 for constructors of explicitly instantiated templates) to their aliasee,
        // so that calls through an alias are ordinary direct calls (and --alias on the aliasee covers them)
        std::vector<GlobalAlias*> gas;
        for (auto& A : M->aliases()) gas.push_back(&A);
        for (auto* A : gas) {
            auto* F = dyn_cast<Function>(A->getAliasee()->stripPointerCasts());
            if (!F) continue;
            A->replaceAllUsesWith(F->getType() == A->getType() ? (Constant*)F : ConstantExpr::getBitCast(F, A->getType()));
            A->eraseFromParent();
        }
    }
    atomicHook = M->getFunction("verif_atomic_load64") && !M->getFunction("verif_atomic_load64")->isDeclaration();
    if (!rewriteOut.empty()) {
        if (atomicHook) {
            Function* hook = M->getFunction("verif_atomic_load64");
            std::vector<LoadInst*> todo;
            for (auto& F : *M) { if (&F == hook) continue; for (auto& BB : F) for (auto& I : BB) if (auto* ld = dyn_cast<LoadInst>(&I)) if (ld->isAtomic() && ld->getType()->isIntegerTy(64)) todo.push_back(ld); }
            for (auto* ld : todo) {
                Value* p = ld->getPointerOperand();
                Type* want = hook->getFunctionType()->getParamType(0);
                if (p->getType() != want) p = new BitCastInst(p, want, "", ld);
                CallInst* c = CallInst::Create(hook->getFunctionType(), hook, {p}, "", ld);
                ld->replaceAllUsesWith(c); ld->eraseFromParent();
            }
        }
        // apply the substitutions at IR level (used for the native replay build, so that it runs the same program)
        for (auto& kv : aliases) {
            Function* r = M->getFunction(kv.first); Function* m = M->getFunction(kv.second);
            if (!r) continue;   // kernel not used by this TU
            if (!m) die("alias target not found: " + kv.second);
            if (r->getType() != m->getType()) die("alias type mismatch: " + kv.first + " vs " + kv.second);
            r->replaceAllUsesWith(m);
        }
        std::error_code ec; raw_fd_ostream os(rewriteOut, ec);
        if (ec) die("cannot write " + rewriteOut);
        M->print(os, nullptr);
        return 0;
    }
    for (auto& G : M->globals()) { globalNames[&G] = sanitize(G.getName().str()); gvByName[G.getName().str()] = &G; }
    for (auto& F : *M) { globalNames[&F] = fname(&F); fnByName[F.getName().str()] = &F; }
    if (atomicHook) roots.insert("verif_atomic_load64");
    if (roots.empty()) die("--root required");
    for (auto& r : roots) if (!fnByName.count(r)) die("root not found: " + r);
    for (auto& kv : aliases) if (!fnByName.count(kv.second)) die("alias target not found: " + kv.second);
    auto closure = [&]() {
        std::vector<const Function*> work;
        for (auto& F : *M) if (roots.count(F.getName().str()) && !F.isDeclaration()) work.push_back(&F);
        std::set<const Function*> done;
        while (!work.empty()) {
            const Function* f = work.back(); work.pop_back();
            if (!done.insert(f).second) continue;
            reach.insert(f);
            if (stubFuncs.count(f->getName().str())) continue;
            for (auto& BB : *f) for (auto& I : BB) { if (isCxaThrow(I)) continue; for (auto& U : I.operands()) {
                const Value* v = U.get()->stripPointerCasts();
                if (auto* g = dyn_cast<Function>(v)) {
                    auto al = aliases.find(g->getName().str());
                    if (al != aliases.end()) g = fnByName[al->second];
                    if (!done.count(g)) work.push_back(g);
                }
            } }
        }
        std::set<const Value*> seen;
        for (auto* F : reach) { if (stubFuncs.count(F->getName().str())) continue;
            for (auto& BB : *F) for (auto& I : BB) { if (isCxaThrow(I)) continue; for (auto& U : I.operands()) if (isa<Constant>(U.get())) collectGlobals(U.get(), seen); } }
    };
    for (auto& kv : aliases) roots.insert(kv.second);
    closure();
    if (!dataFile.empty()) {
        loadData(dataFile);
        // fixpoint: pointers in dumped data may pull in more globals / functions / heap segments
        for (int iter = 0; iter < 20; iter++) {
            size_t ng = usedGlobals.size(), nf = refFuncs.size(); heapChanged = false;
            for (auto* G : std::set<const GlobalVariable*>(usedGlobals)) { auto it = gbytes.find(G->getName().str()); if (it != gbytes.end()) { if (it->second.size() < DL->getTypeAllocSize(G->getValueType())) die("short dump for " + G->getName().str()); bytesInit(G->getValueType(), it->second.data(), true); } }
            for (auto& h : heaps) { auto cuts = h.cuts; for (auto it = cuts.begin(); it != cuts.end(); ++it) {
                auto nx = std::next(it); uint64_t end = nx == cuts.end() ? h.size : nx->first; uint64_t es = DL->getTypeAllocSize(it->second);
                for (uint64_t o = it->first; o + es <= end; o += es) bytesInit(it->second, h.bytes.data() + o, true); } }
            closure();
            if (ng == usedGlobals.size() && nf == refFuncs.size() && !heapChanged) break;
        }
    }
    if (!externalsOut.empty()) {
        // everything the generated C leaves undefined: CBMC treats such functions as side-effect free
        // with a nondeterministic result and such globals as nondeterministic - the driver must allow each explicitly
        std::ofstream ex(externalsOut);
        std::set<std::string> seenF;
        for (auto* F : reach) { if (stubFuncs.count(F->getName().str())) continue;
            for (auto& BB : *F) for (auto& I : BB) if (auto* cb = dyn_cast<CallBase>(&I)) {
                const Function* c = cb->getCalledFunction(); if (!c) { continue; }
                if (c->isIntrinsic()) continue;
                auto al = aliases.find(c->getName().str()); if (al != aliases.end()) continue;
                if ((c->isDeclaration() || stubFuncs.count(c->getName().str())) && seenF.insert(c->getName().str()).second) ex << "F " << c->getName().str() << " " << fname(c) << "\n";
            } }
        for (auto* F : refFuncs) if (!reach.count(F) && seenF.insert(F->getName().str()).second) ex << "A " << F->getName().str() << "\n";
        for (auto* G : usedGlobals) if (G->isDeclaration()) ex << "G " << G->getName().str() << "\n";
    }
    if (!dynList.empty()) {
        std::ofstream dl(dynList);
        for (auto* G : usedGlobals) if (!G->isConstant() && !G->isDeclaration() && !G->isThreadLocal()) dl << G->getName().str() << " " << DL->getTypeAllocSize(G->getValueType()) << "\n";
    }
    for (auto& F : *M) {
        if (F.isIntrinsic()) continue;
        static const std::set<std::string> libc = {"_Znwm","_Znam","_ZdlPv","_ZdaPv","_ZdlPvm","_ZdaPvm","__cxa_allocate_exception","_ZSt17__throw_bad_allocv","_ZSt20__throw_length_errorPKc","_ZSt24__throw_out_of_range_fmtPKcz","_ZSt19__throw_logic_errorPKc","_ZSt20__throw_out_of_rangePKc","_ZSt25__throw_bad_function_callv","_ZSt28__throw_bad_array_new_lengthv","__cxa_pure_virtual","_ZSt9terminatev","__assert_fail","strcmp","strlen","memcmp","memcpy","memmove","memset","malloc","free","abort","strchr","memchr","calloc","realloc","exit"};
        if (libc.count(F.getName().str())) continue;
        bool inReach = reach.count(&F);
        if (!inReach && !refFuncs.count(&F)) continue;
        emitFunction(F, !inReach);
    }
    // globals: declarations
    for (auto& G : M->globals()) {
        if (G.getName().startswith("llvm.")) continue;
        if (!usedGlobals.count(&G)) continue;
        std::string n = globalNames[&G];
        Type* vt = G.getValueType();
        std::string d;
        if (auto* at = dyn_cast<ArrayType>(vt); at && at->getNumElements() == 0) d = decl(at->getElementType(), n + "[]");
        else d = decl(vt, n);
        globalsOut << "extern " << ((G.isConstant() && !gbytes.count(G.getName().str())) ? "const " : "") << d << ";\n";
    }
    std::ostringstream globalDefs;
    // heap segments
    for (size_t k = 0; k < heaps.size(); k++) {
        HeapBlk& h = heaps[k];
        for (auto it = h.cuts.begin(); it != h.cuts.end(); ++it) {
            auto nx = std::next(it); uint64_t end = nx == h.cuts.end() ? h.size : nx->first; uint64_t es = DL->getTypeAllocSize(it->second);
            uint64_t n = (end - it->first) / es; if (n == 0) n = 1;
            std::string nm = heapSegName(k, it->first);
            globalsOut << "extern " << decl(it->second, nm + "[" + std::to_string(n) + "]") << ";\n";
            globalDefs << decl(it->second, nm + "[" + std::to_string(n) + "]") << " = {";
            bool first = true;
            for (uint64_t o = it->first; o + es <= end; o += es) { if (!first) globalDefs << ","; first = false; globalDefs << bytesInit(it->second, h.bytes.data() + o, false); }
            if (first) globalDefs << "0";
            globalDefs << "};\n";
        }
    }
    for (auto& G : M->globals()) {
        std::string n = globalNames[&G];
        if (G.isDeclaration() || G.getName().startswith("llvm.")) continue;
        if (!usedGlobals.count(&G)) continue;
        auto it = gbytes.find(G.getName().str());
        if (it != gbytes.end()) globalDefs << decl(G.getValueType(), n) << " = " << bytesInit(G.getValueType(), it->second.data(), false) << ";\n";
        else globalDefs << (G.isConstant() ? "const " : "") << decl(G.getValueType(), n) << " = " << constInit(G.getInitializer()) << ";\n";
    }
    while (true) { std::vector<const StructType*> todo; for (auto* st : pendingStructs) if (!structDefined.count(st)) todo.push_back(st); if (todo.empty()) break; for (auto* st : todo) defineStruct(st); }
    std::ostringstream sasserts;
    for (auto* st : structDefined) if (!st->isOpaque() && st->isSized() && st->getNumElements() > 0) sasserts << "_Static_assert(sizeof(struct " << structName(st) << ") == " << DL->getTypeAllocSize(const_cast<StructType*>(st)) << ", \"layout\");\n";
    std::ofstream o(argv[2]);
    o << "/* generated by ir2c from " << argv[1] << " */\n#include \"ir2c_rt.h\"\n";
    o << typeDecls.str() << typeDefs.str() << sasserts.str() << globalsOut.str() << protos.str() << globalDefs.str() << bodies.str();
    return 0;
}
