#!/bin/sh
# builds tools/ir2c against the system LLVM 14
set -e
cd "$(dirname "$0")"
mkdir -p ../build
FLAGS="$(llvm-config-14 --cxxflags | sed -e 's/-fno-exceptions//' -e 's/-std=c++[0-9a-z]*//')"
g++ -std=c++17 -O1 $FLAGS ir2c.cpp -o ../build/ir2c -lLLVM-14 -L"$(llvm-config-14 --libdir)"
echo "built $(cd ..; pwd)/build/ir2c"
