/* Concrete runtime: the same harness entry is executed on a recorded input vector.
   Linked (a) with the g++ build of the harness TU (real code) and (b) with the gcc build of
   the generated C (translation under validation).  Prints one status line:
     END <digest>            ran to the end, all assumptions and assertions passed
     ASSUME-FAIL <k> <dig>   k-th assume false (path outside the harness domain)
     ASSERT-FAIL <label>     a harness assertion is false
     THROW                   a C++ exception event
   Mode "dump": writes the bytes of requested globals and of live heap blocks. */
#include <stdio.h>
#include <stdlib.h>
#include <string.h>
#include <stdint.h>
struct verif_entry { const char* name; void (*fn)(void); };
extern struct verif_entry verif_entries[];   /* generated per unit */
static long long the_param;
uint32_t verif_param(void) { return (uint32_t)the_param; }
void verif_end(void) { }
#define MAXV (1<<20)
static uint64_t vec[MAXV]; static size_t nvec, vpos; static uint64_t rng = 88172645463325252ULL;
static uint64_t digest = 1469598103934665603ULL; static int nassume, nassertfail; static int keepGoing;
static uint64_t nextv(void) {
    if (vpos < nvec) return vec[vpos++];
    vpos++; rng ^= rng << 13; rng ^= rng >> 7; rng ^= rng << 17; return rng;
}
uint64_t nondet_u64(void) { return nextv(); }
uint32_t nondet_u32(void) { return (uint32_t)nextv(); }
uint32_t nondet_int(void) { return (uint32_t)nextv(); }
uint16_t nondet_u16(void) { return (uint16_t)nextv(); }
uint8_t  nondet_u8(void)  { return (uint8_t)nextv(); }
_Bool    nondet_bool(void){ return (nextv() & 1) != 0; }
void verif_observe(uint64_t v) { digest = (digest ^ v) * 1099511628211ULL; }
void __CPROVER_assume(_Bool c) { nassume++; if (!c) { printf("ASSUME-FAIL %d %016llx\n", nassume, (unsigned long long)digest); fflush(stdout); exit(0); } }
void verif_assert(_Bool c, uint8_t* label) {
    verif_observe(c ? 1 : 0);
    if (!c) { printf("ASSERT-FAIL %s\n", (const char*)label); fflush(stdout); nassertfail++; if (!keepGoing) exit(0); }
}
void __ir_unreachable(void) { printf("UNREACHABLE\n"); fflush(stdout); exit(0); }
void __ir_trap(void) { printf("TRAP\n"); fflush(stdout); exit(0); }
void __ir_landingpad(void) { printf("THROW\n"); fflush(stdout); exit(0); }
void __ir_resume(void) { printf("THROW\n"); fflush(stdout); exit(0); }
void verif_throw_event(void) { printf("THROW\n"); fflush(stdout); exit(0); }

void verif_repo_assert_fail(const char* expr) { printf("ASSERT-FAIL repo assert(%s)\n", expr); fflush(stdout); exit(0); }
void __assert_fail(const char* expr, const char* file, unsigned line, const char* fn) { (void)file; (void)line; (void)fn; verif_repo_assert_fail(expr); }
/* heap log (filled by native_heap.cpp when linked; weak otherwise) */
struct verif_heap_blk { void* p; size_t n; };
extern struct verif_heap_blk verif_heap_log[] __attribute__((weak));
extern size_t verif_heap_n __attribute__((weak));

static void hexout(FILE* f, const unsigned char* p, size_t n) { static const char* h = "0123456789abcdef"; for (size_t i = 0; i < n; i++) { fputc(h[p[i] >> 4], f); fputc(h[p[i] & 15], f); } }

int main(int argc, char** argv) {
    if (argc >= 4 && !strcmp(argv[1], "dump")) {
        FILE* rq = fopen(argv[2], "r"); FILE* out = fopen(argv[3], "w"); if (!rq || !out) return 3;
        char name[1024]; unsigned long long addr, size;
        while (fscanf(rq, "%1023s %llx %llu", name, &addr, &size) == 3) { fprintf(out, "G %s ", name); hexout(out, (const unsigned char*)(uintptr_t)addr, size); fputc('\n', out); }
        if (&verif_heap_n) for (size_t i = 0; i < verif_heap_n; i++) if (verif_heap_log[i].p && verif_heap_log[i].n <= (64u << 20)) {
            fprintf(out, "H %llx %llx ", (unsigned long long)(uintptr_t)verif_heap_log[i].p, (unsigned long long)verif_heap_log[i].n); hexout(out, verif_heap_log[i].p, verif_heap_log[i].n); fputc('\n', out); }
        fclose(out); return 0;
    }
    if (argc >= 6 && !strcmp(argv[1], "run")) {
        /* run <entry> <param> <vectorfile> <seed> [keepgoing] */
        struct verif_entry* e = verif_entries; while (e->name && strcmp(e->name, argv[2])) e++;
        if (!e->name) { fprintf(stderr, "no such entry %s\n", argv[2]); return 3; }
        the_param = strtoll(argv[3], 0, 10);
        FILE* f = fopen(argv[4], "r"); if (!f) return 3;
        unsigned long long v; while (nvec < MAXV && fscanf(f, "%llu", &v) == 1) vec[nvec++] = v;
        fclose(f);
        rng = strtoull(argv[5], 0, 10) | 1;
        if (argc >= 7) keepGoing = 1;
        e->fn();
        if (nassertfail) { printf("FAILED %d\n", nassertfail); return 0; }
        printf("END %016llx\n", (unsigned long long)digest); return 0;
    }
    fprintf(stderr, "usage: %s run <entry> <param> <vector> <seed> [keepgoing] | dump <req> <out>\n", argv[0]); return 3;
}
