#!/usr/bin/python3
# Regenerates MANIFEST.json from props/*.py (claimed properties) and props/not_applicable.py
import os, sys, json, importlib
ROOT = os.path.dirname(os.path.dirname(os.path.abspath(__file__)))
sys.path.insert(0, ROOT)
from props import not_applicable as NA
checks = []
for f in sorted(os.listdir(os.path.join(ROOT, 'props'))):
    if not (f.startswith('C') and f.endswith('.py')): continue
    pid = f[:-3]
    mod = importlib.import_module('props.' + pid)
    checks.append({
        'property_id': pid,
        'quick_cmd': './check %s quick' % pid,
        'thorough_cmd': './check %s thorough' % pid,
        'evidence_file': '/verif/evidence/%s.json' % pid,
        'replay_cmd_template': './check %s --replay {path}' % pid,
        'engine': 'ir2c+cbmc',
        'level_claimed': {'category': 'model_checking', 'text': mod.LEVEL_TEXT, 'design_ref': getattr(mod, 'DESIGN_REF', 'DESIGN.md section 4 ' + pid)},
        'level_note': getattr(mod, 'LEVEL_NOTE', 'Bounded: holds for every input inside the stated ranges/unwindings only. Trusted: clang-14 IR lowering, ir2c translator (validated per run against native execution), CBMC 6.11 + SAT back end, natively dumped tables, harness oracles. Assumptions: ' + '; '.join(mod.ASSUMPTIONS)),
        'technique': getattr(mod, 'TECHNIQUE', 'bounded symbolic model checking of the real C++ (clang IR -> C via ir2c -> CBMC/SAT), counterexamples replayed natively'),
    })
claimed = {c['property_id'] for c in checks}
man = {
    'version': 1,
    'setup_cmd': 'tools/build_ir2c.sh',
    'hooks': {'guard': 'TEXEL_VERIF', 'enable': 'no hooks are needed: harness translation units #include the real .cpp files (clang -fno-access-control), so nothing in /repo is instrumented',
              'baseline_off_cmd': 'cmake -G Ninja -B /repo/_build -S /repo && cmake --build /repo/_build && ctest --test-dir /repo/_build -j8 --timeout 900',
              'source_commits': [], 'add_only': True},
    'engines': [{'name': 'ir2c+cbmc', 'path': '/verif/vlib/pipeline.py', 'serves_properties': sorted(claimed),
                 'kind_free_text': 'clang-14 IR of harness TUs that include the real texel sources -> tools/ir2c.cpp (IR->C) -> CBMC 6.11 bounded model checking; witness twins, translation validation and native (UBSan) replay of counterexamples'}],
    'checks': checks,
    'notes': 'All checks are solver-based (CBMC) on code regenerated from /repo on every run. Exit 0 = all core obligations discharged; 1 = replayed violation; 2 = machinery error; 3 = core obligation undecided.',
    'not_applicable': [{'property_id': k, 'reason': v} for k, v in sorted(NA.REASONS.items()) if k not in claimed],
}
json.dump(man, open(os.path.join(ROOT, 'MANIFEST.json'), 'w'), indent=1)
print('claimed:', sorted(claimed)); print('not applicable:', [k for k in sorted(NA.REASONS) if k not in claimed])
