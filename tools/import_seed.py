#!/usr/bin/env python3
"""usage: tools/import_seed.py <property> <dir-with patch.diff/demo/notes> : copies a seeded change into seeded/<property>-<n>/ with a meta.json skeleton."""
import sys, os, json, shutil, glob, re
V = os.path.dirname(os.path.dirname(os.path.abspath(__file__)))
pid, src = sys.argv[1], sys.argv[2]
nums = [int(re.search(r'-(\d+)$', d).group(1)) for d in glob.glob(os.path.join(V, 'seeded', pid + '-*'))]
sid = '%s-%d' % (pid, max(nums + [0]) + 1)
dst = os.path.join(V, 'seeded', sid)
shutil.copytree(src, dst)
notes = open(os.path.join(dst, 'notes.txt')).read() if os.path.exists(os.path.join(dst, 'notes.txt')) else ''
json.dump({'property': pid, 'origin': 'fresh sub-agent (second round) given only the property text, the kinds of change already tried, and its own git worktree of /repo (nothing from /verif)',
           'needs_to_manifest': notes, 'confirmed': 'by the sub-agent: compiles, every stable baseline test still passes, demonstration fails with the change and passes without it; by me: patch applied to a scratch worktree (tools/seedcheck.sh), check run against it, worktree removed',
           'detected_by_check': None, 'caught_by_obligations': [], 'comment': 'to be confirmed'}, open(os.path.join(dst, 'meta.json'), 'w'), indent=1)
print(sid)
