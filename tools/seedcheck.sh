#!/bin/sh
# usage: tools/seedcheck.sh <seeded/ID> <property> <tier> [--only X]   - runs a check against a scratch worktree of /repo with the seed applied
set -e
seed=$(readlink -f "$1"); shift
wt=/tmp/wt-seed-$$
git -C /repo worktree add -q --detach "$wt" HEAD
trap 'git -C /repo worktree remove --force "$wt" >/dev/null 2>&1 || true' EXIT
git -C "$wt" apply "$seed/patch.diff"
cd /verif
VERIF_REPO="$wt" VERIF_EVIDENCE_SUFFIX=.seed ./check "$@" || true
