// Logs heap blocks that are live when main() starts (i.e. allocated by static initialisers),
// so that run-time initialised tables living on the heap can be dumped for the CBMC job.
#include <cstdlib>
#include <cstddef>
#include <new>
#include <exception>
#include <cstdio>
#include <unistd.h>
extern "C" {
struct verif_heap_blk { void* p; size_t n; };
verif_heap_blk verif_heap_log[65536]; size_t verif_heap_n = 0;
void* __real_malloc(size_t); void __real_free(void*); void* __real_realloc(void*, size_t); void* __real_calloc(size_t, size_t);
static void logAdd(void* p, size_t n) { if (p && verif_heap_n < 65536) { verif_heap_log[verif_heap_n].p = p; verif_heap_log[verif_heap_n].n = n; verif_heap_n++; } }
static void logDel(void* p) { if (!p) return; for (size_t i = verif_heap_n; i-- > 0;) if (verif_heap_log[i].p == p) { verif_heap_log[i].p = nullptr; break; } }
void* __wrap_malloc(size_t n) { void* p = __real_malloc(n); logAdd(p, n); return p; }
void* __wrap_calloc(size_t a, size_t b) { void* p = __real_calloc(a, b); logAdd(p, a * b); return p; }
void  __wrap_free(void* p) { logDel(p); __real_free(p); }
void* __wrap_realloc(void* p, size_t n) { logDel(p); void* q = __real_realloc(p, n); logAdd(q, n); return q; }
}
void* operator new(size_t n) { void* p = __wrap_malloc(n ? n : 1); if (!p) throw std::bad_alloc(); return p; }
void* operator new[](size_t n) { return operator new(n); }
void operator delete(void* p) noexcept { __wrap_free(p); }
void operator delete[](void* p) noexcept { __wrap_free(p); }
void operator delete(void* p, size_t) noexcept { __wrap_free(p); }
void operator delete[](void* p, size_t) noexcept { __wrap_free(p); }

// An exception that leaves the harness entry is an event ("THROW"), reported like the CBMC side does
static void verif_on_terminate() { const char m[] = "THROW uncaught C++ exception\n"; (void)!write(1, m, sizeof m - 1); _exit(0); }
static struct VerifTerminateInstaller { VerifTerminateInstaller() { std::set_terminate(verif_on_terminate); } } verif_terminate_installer;
