/* CBMC-side runtime: nondet inputs (recorded in the trace through the __nd_* locals),
   harness assertion, exception/unreachable events. */
#include "ir2c_rt.h"
uint64_t nondet_raw_u64(void); uint32_t nondet_raw_u32(void); int32_t nondet_raw_i32(void);
uint16_t nondet_raw_u16(void); uint8_t nondet_raw_u8(void);
uint64_t nondet_u64(void) { uint64_t __nd_u64 = nondet_raw_u64(); return __nd_u64; }
uint32_t nondet_u32(void) { uint32_t __nd_u32 = nondet_raw_u32(); return __nd_u32; }
uint32_t nondet_int(void) { int32_t __nd_i32 = nondet_raw_i32(); return (uint32_t)__nd_i32; }
uint16_t nondet_u16(void) { uint16_t __nd_u16 = nondet_raw_u16(); return __nd_u16; }
uint8_t  nondet_u8(void)  { uint8_t  __nd_u8  = nondet_raw_u8();  return __nd_u8; }
_Bool    nondet_bool(void){ uint8_t  __nd_b   = nondet_raw_u8(); __CPROVER_assume(__nd_b <= 1); return __nd_b != 0; }
#ifdef WITNESS
/* reachability twin: harness assertions are ignored, the end-of-harness marker must be reachable */
void verif_assert(_Bool c, uint8_t* label) { }
void verif_end(void) { __CPROVER_assert(0, "witness: end of harness reached"); }
#else
void verif_assert(_Bool c, uint8_t* label) { __CPROVER_assert(c, "harness assertion"); }
void verif_end(void) { }
#endif
#ifndef VERIF_PARAM
#define VERIF_PARAM 0
#endif
uint32_t verif_param(void) { return (uint32_t)(VERIF_PARAM); }
void verif_observe(uint64_t v) { }
void __ir_unreachable(void) { __CPROVER_assert(0, "IR unreachable executed"); __CPROVER_assume(0); }
void __ir_trap(void) { __CPROVER_assert(0, "trap executed"); __CPROVER_assume(0); }
void __ir_landingpad(void) { __CPROVER_assume(0); }
void __ir_resume(void) { __CPROVER_assume(0); }
#ifdef VERIF_THROW_OK
void verif_throw_event(void) { __CPROVER_assume(0); }
#else
void verif_throw_event(void) { __CPROVER_assert(0, "C++ exception thrown"); __CPROVER_assume(0); }
#endif
#ifdef WITNESS
void verif_repo_assert_fail(const char* expr) { __CPROVER_assume(0); }
#else
void verif_repo_assert_fail(const char* expr) { __CPROVER_assert(0, "assert() in the repository code failed"); __CPROVER_assume(0); }
#endif
