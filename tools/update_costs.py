#!/usr/bin/env python3
"""Refresh vlib/costs.json (scheduling hints: longest obligation first) from the evidence files of the last runs."""
import json, glob, os, re
V = os.path.dirname(os.path.dirname(os.path.abspath(__file__)))
p = os.path.join(V, 'vlib', 'costs.json')
try: costs = json.load(open(p))
except Exception: costs = {}
for f in glob.glob(os.path.join(V, 'evidence', 'C??.json')) + glob.glob(os.path.join(V, 'evidence', 'thorough', 'C??.json')):
    d = json.load(open(f)); pid = d['property_id']
    for o in d['coverage'].get('obligation_details', []):
        if o.get('wall_s'): costs.setdefault(pid, {})[o['id']] = round(o['wall_s'])
json.dump(costs, open(p, 'w'), indent=0, sort_keys=True)
