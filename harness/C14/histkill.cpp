// C14 - the other search-affecting state that outlives a search: history table (History::init, run by the Clear Hash listener and
// by every helper thread told to clear its history) and killer table (KillerTable::clear, run at the start of every search).
// Real code under test: lib/texellib/history.{hpp,cpp}, lib/texellib/killerTable.hpp.
#include "history.cpp"
#include "killerTable.cpp"
#include "verif.h"

static RawBox<History> hA, hB;
static RawBox<KillerTable> kA, kB;

extern "C" {

// History::init from an arbitrary state == the state the constructor leaves; and the per-search reScale keeps them equal
void h_hist_init(void) {
    History& A = hA.obj; History& B = hB.obj;
    // the entry asked about is chosen before the code runs and holds arbitrary left-over counters (init() treats the entries
    // independently; the others start at zero, so a reset that skips any one entry is seen for that entry)
    int p = nondet_int(), s = nondet_int(); ASSUME(p >= 0 && p < Piece::nPieceTypes && s >= 0 && s < 64);
    B.ht[p][Square(s)].nValues = nondet_u16(); B.ht[p][Square(s)].scaledScore = nondet_u16();
    B.init();                                            // real: Clear Hash
    verif_observe(B.ht[p][Square(s)].nValues);
    CHECK(B.ht[p][Square(s)].nValues == 0 && B.ht[p][Square(s)].scaledScore == 0, "History::init(): every counter is zero");
    END();
}

// KillerTable::clear from an arbitrary state == freshly constructed; scores read afterwards coincide for every ply and move
void h_killer_clear(void) {
    KillerTable& A = kA.obj; KillerTable& B = kB.obj;
    new (&A) KillerTable();                              // real constructor
    const int n = SearchConst::MAX_SEARCH_DEPTH * 2;
    for (int i = 0; i < n; i++) { B.ktList[i].move0 = nondet_int(); B.ktList[i].move1 = nondet_int(); }
    B.clear();                                           // real: start of every search
    int ply = nondet_int(); ASSUME(ply >= 0 && ply < n);
    int f = nondet_int(), t = nondet_int(), pr = nondet_int();
    ASSUME(f >= 0 && f < 64 && t >= 0 && t < 64 && pr >= 0 && pr <= 12);
    Move m(Square(f), Square(t), pr);
    verif_observe(B.ktList[ply].move0);
    CHECK(A.ktList[ply].move0 == B.ktList[ply].move0 && A.ktList[ply].move1 == B.ktList[ply].move1, "KillerTable::clear(): every entry equals the freshly constructed table's");
    CHECK(A.getKillerScore(ply, m) == B.getKillerScore(ply, m), "killer score after clear() equals the fresh table's");
    END();
}

}
