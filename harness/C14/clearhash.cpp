// C14 - "Clear Hash makes the next search identical to a fresh start": the hash table a search sees after Clear Hash answers every
// probe exactly as the table of a freshly started engine does, whatever was in it before.
// Real code under test: TranspositionTable::clear/nextGeneration/insert/probe/setUsedSize (transpositionTable.{cpp,hpp}).
// Built on the C12 installation harness (generator stubs, symbolic bookkeeping state).
#include "C12/tbinstall.cpp"

typedef TT::TTEntry TTEntry;
typedef TT::TTEntryStorage TTES;
static const int NSD = 16;                                // 4 buckets; the index function is abstracted to its C08-O1 contract
alignas(64) static TTES arrF[NSD], arrC[NSD];
static TTBox boxF;                                       // the table of the freshly started engine (ttBox.tt is the cleared one)
extern "C" size_t model_getIndex(const TT* tt, U64 key) { return (size_t)((key >> 62) * 4); }

static void arbitraryContents(TTES* a) {
    for (int i = 0; i < NSD; i++) { a[i].key.store(nondet_u64(), std::memory_order_relaxed); a[i].data.store(nondet_u64(), std::memory_order_relaxed); }
}

struct Obs { int type, depth, score, ev, mv; bool busy; U64 key; };
static Obs observe(const TTEntry& e) {
    Obs o; o.type = e.getType(); o.key = 0; o.depth = o.score = o.ev = o.mv = 0; o.busy = false;
    if (o.type != TType::T_EMPTY) {                      // what the search reads from a hit
        Move m; e.getMove(m);
        o.key = e.getKey(); o.depth = e.getDepth(); o.score = e.getScore(0); o.ev = e.getEvalScore(); o.busy = e.getBusy();
        o.mv = m.from().asInt() + 64 * m.to().asInt() + 4096 * m.promoteTo();
    }
    return o;
}

// ---- O1: differential - fresh table vs. arbitrary table after clear(), same `go`, same stores, same probe
extern "C" void h_clear_diff(void) {
    const int N = (int)(verif_param() & 15);             // number of stores before the probe
    const bool oneBucket = (verif_param() & 16) != 0;    // case restriction, see below
    // freshly started engine: the tail of reSize() ("generation = 0; clear();") over newly allocated memory (arbitrary bytes)
    TT& F = boxF.tt;
    F.table = arrF; F.tableSize = NSD; F.contemptHash = 0; F.notUsedCnt = 0;
    new (&F.ttStorage) TTStorage(F); new (&F.tbGen) std::unique_ptr<Gen>();
    arbitraryContents(arrF);
    F.generation = 0;
    F.clear();                                           // real
    // engine with an arbitrary past: any table contents, any generation, tablebase installed or not, any usedSize / counter
    TT& C = ttBox.tt;
    bool hasGen; symbolicTT(C, hasGen);
    C.table = arrC; C.tableSize = NSD;
    arbitraryContents(arrC);
    U8 gen = nondet_u8(); ASSUME(gen <= 15);             // nextGeneration() keeps it in 0..15
    C.generation = gen;
    C.clear();                                           // real: the Clear Hash listener
    verif_observe(C.usedSize); verif_observe(C.generation);
    // the next search command: both engines see the same `go` (ageing or not), the same contempt
    int whiteContempt = nondet_int(); ASSUME(whiteContempt >= -2000 && whiteContempt <= 2000);
    bool age = nondet_bool();
    if (age) { F.nextGeneration(); C.nextGeneration(); } // real
    F.setWhiteContempt(whiteContempt); C.setWhiteContempt(whiteContempt);   // real
    U64 Q = nondet_u64();
    for (int i = 0; i < N; i++) {
        U64 K = nondet_u64();
        // restricted case: all keys of the run fall into the probed bucket - buckets are independent (C08-O5: insert writes at most
        // one slot of its own bucket), so stores elsewhere cannot influence the probe; it makes the equivalence query several times cheaper
        if (oneBucket) ASSUME((K >> 62) == (Q >> 62));
        int f = nondet_int(), t = nondet_int(), p = nondet_int(), sc = nondet_int();
        int type = nondet_int(), ply = nondet_int(), depth = nondet_int(), ev = nondet_int(); bool busy = nondet_bool();
        ASSUME(f >= 0 && f < 64 && t >= 0 && t < 64 && p >= 0 && p <= 12);
        ASSUME(type >= 1 && type <= 3 && ply >= 0 && ply <= 200 && depth >= -8 && depth <= 511 && ev >= -32768 && ev <= 32767);
        ASSUME(sc >= -(32000 - ply) && sc <= 32000 - ply);
        Move sm(Square(f), Square(t), p, sc);
        F.insert(K, sm, type, ply, depth, ev, busy);     // real
        C.insert(K, sm, type, ply, depth, ev, busy);     // real
    }
    TTEntry rF, rC;
    F.probe(Q, rF);                                      // real
    C.probe(Q, rC);                                      // real
    Obs a = observe(rF), b = observe(rC);
    verif_observe(a.type); verif_observe(b.type); verif_observe(a.key);
    CHECK(a.type == b.type, "after Clear Hash a probe hits exactly when it hits in a freshly started engine");
    CHECK(a.key == b.key && a.depth == b.depth && a.score == b.score && a.ev == b.ev && a.mv == b.mv && a.busy == b.busy,
          "after Clear Hash a probe returns the same record as in a freshly started engine");
    END();
}

// ---- O2: state form (unbounded in the number of later operations): after clear() every field the hashing code reads equals the
//      fresh engine's, so all later behaviour coincides by determinism.
extern "C" void h_clear_state(void) {
    TT& F = boxF.tt;
    F.table = arrF; F.tableSize = NSD; F.contemptHash = 0; F.notUsedCnt = 0;
    new (&F.ttStorage) TTStorage(F); new (&F.tbGen) std::unique_ptr<Gen>();
    arbitraryContents(arrF);
    F.generation = 0;
    F.clear();                                           // real
    TT& C = ttBox.tt;
    bool hasGen; symbolicTT(C, hasGen);
    C.table = arrC; C.tableSize = NSD;
    arbitraryContents(arrC);
    U8 gen = nondet_u8(); ASSUME(gen <= 15);
    C.generation = gen;
    C.clear();                                           // real
    verif_observe(C.usedSize); verif_observe(C.generation);
    bool same = true;
    for (int i = 0; i < NSD; i++)
        same = same && arrF[i].key.load(std::memory_order_relaxed) == arrC[i].key.load(std::memory_order_relaxed)
                    && arrF[i].data.load(std::memory_order_relaxed) == arrC[i].data.load(std::memory_order_relaxed);
    CHECK(same, "clear(): table contents equal a fresh table's");
    CHECK(C.usedSize == F.usedSize && C.usedSizeTopBits == F.usedSizeTopBits && C.usedSizeShift == F.usedSizeShift && C.usedSizeMask == F.usedSizeMask,
          "clear(): index parameters equal a fresh table's");
    CHECK((C.tbGen == nullptr) == (F.tbGen == nullptr) && C.notUsedCnt == F.notUsedCnt, "clear(): tablebase bookkeeping equals a fresh table's");
    CHECK(C.generation == F.generation, "clear(): generation counter equals a fresh table's");
    END();
}
