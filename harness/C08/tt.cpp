// C08 - transposition table: index range, packing, torn reads, mate-score shift, bucket ops.
// Real code under test: lib/texellib/transpositionTable.{hpp,cpp} (unity include).
#include "transpositionTable.cpp"
#include "verif.h"

typedef TranspositionTable TT;
typedef TranspositionTable::TTEntry TTEntry;
typedef TranspositionTable::TTEntryStorage TTES;

static RawBox<TranspositionTable> ttBox;
static TT& rawTT() { return ttBox.obj; }

// Bucket-level obligations run on a 16-slot table (4 buckets).  getIndex is replaced there by
// model_getIndex, *a* function with the contract O1 proves for the real one (4-aligned, whole
// bucket inside the table, function of the key only); probe/insert are parametric in it.
static const int NSLOT = 16;
alignas(64) static TTES slotArr[NSLOT];
static TTES* slots() { return slotArr; }
static void setw0(int i, U64 v) { slotArr[i].key.store(v, std::memory_order_relaxed); }
static void setw1(int i, U64 v) { slotArr[i].data.store(v, std::memory_order_relaxed); }
static U64 w0(int i) { return slotArr[i].key.load(std::memory_order_relaxed); }
static U64 w1(int i) { return slotArr[i].data.load(std::memory_order_relaxed); }
extern "C" size_t model_getIndex(const TT* tt, U64 key) { return (size_t)((key >> 62) * 4); }

extern "C" {

// ---- O1: every index is a bucket start inside the used part, for all sizes and keys
void h_index(void) {
    TT& tt = rawTT();
    U64 s = nondet_u64(), key = nondet_u64();
    ASSUME(s >= 512 && s <= (1ULL << 35) && (s & 3) == 0);
    tt.setUsedSize(s);                                   // real
    CHECK(tt.usedSize == s, "usedSize recorded");
    CHECK(tt.usedSizeTopBits >= 128 && tt.usedSizeTopBits <= 255, "top bits in [128,255]");
    CHECK(tt.usedSizeShift >= 2 && tt.usedSizeShift <= 28, "shift range");
    CHECK(((U64)tt.usedSizeTopBits << tt.usedSizeShift) <= s, "(topBits<<shift) <= usedSize");
    size_t idx = tt.getIndex(key);                       // real
    verif_observe(idx);
    CHECK((idx & 3) == 0, "index is 4-aligned bucket start");
    CHECK(idx + 3 < s, "whole bucket below usedSize");
    END();
}

// ---- O1b: the index reaches the upper part of the table too (no half-used table): for every size
//      some key maps into the last 1/128 + one bucket of the table.  (Existential: witness by construction.)
void h_index_spread(void) {
    TT& tt = rawTT();
    U64 s = nondet_u64();
    ASSUME(s >= 512 && s <= (1ULL << 35) && (s & 3) == 0);
    tt.setUsedSize(s);
    size_t top = tt.getIndex(~0ULL);                     // key with all bits set
    verif_observe(top);
    CHECK(top + 4 + (s >> 6) >= s, "largest index reaches the top 1/64 of the used table");
    CHECK(tt.getIndex(0) == 0, "key 0 maps to bucket 0");
    END();
}

// ---- O2: field packing: get(set(v)) == v and no other field disturbed
void h_pack(void) {
    U64 k = nondet_u64(), d = nondet_u64();
    TTEntry e(k, d);
    int which = nondet_int();
    ASSUME(which >= 0 && which <= 6);
    int v = nondet_int();
    Move m0; e.getMove(m0);
    int sc0 = (S16)e.getBits(16, 16), dep0 = e.getDepth(), gen0 = e.getGeneration(), ty0 = e.getType(), ev0 = e.getEvalScore();
    bool busy0 = e.getBusy();
    Move m1 = m0; int sc1 = sc0, dep1 = dep0, gen1 = gen0, ty1 = ty0, ev1 = ev0; bool busy1 = busy0;
    switch (which) {
    case 0: { int f = nondet_int(), t = nondet_int(), p = nondet_int();
              ASSUME(f >= 0 && f < 64 && t >= 0 && t < 64 && p >= 0 && p <= 12);
              Move m(Square(f), Square(t), p); e.setMove(m); m1 = m; break; }
    case 1: ASSUME(v >= -32768 && v <= 32767); e.setBits(16, 16, v); sc1 = v; break;
    case 2: ASSUME(v >= 0 && v <= 511); e.setDepth(v); dep1 = v; break;
    case 3: ASSUME(v >= 0 && v <= 1); e.setBusy(v != 0); busy1 = v != 0; break;
    case 4: ASSUME(v >= 0 && v <= 15); e.setGeneration(v); gen1 = v; break;
    case 5: ASSUME(v >= 0 && v <= 3); e.setType(v); ty1 = v; break;
    case 6: ASSUME(v >= -32768 && v <= 32767); e.setEvalScore(v); ev1 = v; break;
    }
    Move m2; e.getMove(m2);
    verif_observe(e.getData());
    CHECK(e.getKey() == k, "key untouched by data setters");
    CHECK(m2 == m1, "move field");
    CHECK((S16)e.getBits(16, 16) == sc1, "score field");
    CHECK(e.getDepth() == dep1, "depth field");
    CHECK(e.getBusy() == busy1, "busy field");
    CHECK(e.getGeneration() == gen1, "generation field");
    CHECK(e.getType() == ty1, "type field");
    CHECK(e.getEvalScore() == ev1, "evalScore field");
    // store/load round trip through the xor encoding
    TTES* st = slots();
    e.store(st[0]);                                      // real
    TTEntry l; l.load(st[0]);                            // real
    CHECK(l.getKey() == e.getKey() && l.getData() == e.getData(), "store/load round trip");
    END();
}

// ---- O4: mate scores stored at one ply and read at another are shifted by exactly the ply difference
void h_score(void) {
    int s = nondet_int(), p1 = nondet_int(), p2 = nondet_int();
    ASSUME(p1 >= 0 && p1 <= 200 && p2 >= 0 && p2 <= 200);
    ASSUME(s >= -(32000 - p1) && s <= 32000 - p1);      // scores the search can produce at ply p1
    TTEntry e;
    e.setScore(s, p1);                                   // real
    int raw = (S16)e.getBits(16, 16);
    int r = e.getScore(p2);                              // real
    verif_observe((U64)(unsigned)r);
    if (SearchConst::isWinScore(s)) {
        CHECK(raw == s + p1, "win score stored as distance from node");
        CHECK(r == s + p1 - p2, "win score shifted by ply difference");
    } else if (SearchConst::isLoseScore(s)) {
        CHECK(raw == s - p1, "loss score stored as distance from node");
        CHECK(r == s - p1 + p2, "loss score shifted by ply difference");
    } else {
        CHECK(raw == s && r == s, "ordinary score unchanged");
    }
    CHECK(e.getDepth() == 0 && e.getType() == 0 && e.getEvalScore() == 0 && e.getBits(0, 16) == 0, "setScore touches only the score field");
    // same-ply round trip is the identity
    CHECK(e.getScore(p1) == s, "same ply round trip");
    END();
}

// ---- O3: torn reads.  Every relaxed atomic load of a slot word is its own event: it may observe the word of the older
// unit (a) or of the newer unit (b) stored in that slot, subject to read-read coherence per location (a later load of the
// same word never goes back from b to a).  A reader that loads a word twice can therefore see two different stores.
static bool tornMode; static U64 candOld[2 * NSLOT], candNew[2 * NSLOT]; static int seenNew[2 * NSLOT];   // indexed by word number = 2*slot + word
extern "C" U64 verif_atomic_load64(const U64* p) {
    if (!tornMode) return *p;
    long off = p - reinterpret_cast<const U64*>(slotArr);        // all loads in torn mode are loads of table slots
    int pick = nondet_bool() ? 1 : 0;
    if (pick < seenNew[off]) pick = seenNew[off];
    seenNew[off] = pick;
    return pick ? candNew[off] : candOld[off];
}
static U64 dataNoGen(U64 d) { return d & ~(0xfULL << 42); }
void h_torn(void) {
    TT& tt = rawTT();
    tt.table = slots(); tt.tableSize = NSLOT; tt.contemptHash = nondet_u64();
    tt.generation = nondet_u8() & 15;
    tt.setUsedSize(NSLOT);
    U64 K = nondet_u64();
    U64 Kc = K ^ tt.contemptHash;
    size_t idx0 = tt.getIndex(Kc);
    U64 ka[4], da[4], kb[4], db[4];
    for (int i = 0; i < 2 * NSLOT; i++) { candOld[i] = candNew[i] = 0; seenNew[i] = 0; }
    for (int s = 0; s < 4; s++) {
        ka[s] = nondet_u64(); da[s] = nondet_u64(); kb[s] = nondet_u64(); db[s] = nondet_u64();
        if (nondet_bool()) { kb[s] = ka[s]; db[s] = da[s]; }           // slot written once only (un-torn)
        TTEntry(ka[s], da[s]).store(slots()[idx0 + s]);  // real store of the older unit a into the slot
        candOld[2 * (idx0 + s)] = w0(idx0 + s); candOld[2 * (idx0 + s) + 1] = w1(idx0 + s);
        TTEntry(kb[s], db[s]).store(slots()[idx0 + s]);  // real store of the newer unit b over it
        candNew[2 * (idx0 + s)] = w0(idx0 + s); candNew[2 * (idx0 + s) + 1] = w1(idx0 + s);
        // explicit assumption: no 2^-64 XOR coincidence between units that are both stored for other keys
        ASSUME(!(ka[s] != Kc && kb[s] != Kc && ((ka[s] ^ da[s] ^ db[s]) == Kc || (kb[s] ^ db[s] ^ da[s]) == Kc)));
    }
    TTEntry res;
    tornMode = true;
    tt.probe(K, res);                                    // real
    tornMode = false;
    verif_observe(res.getData());
    if (res.getType() != TType::T_EMPTY) {
        CHECK(res.getKey() == Kc, "hit returns the probed key");
        bool unit = false;
        for (int s = 0; s < 4; s++) {
            if (ka[s] == Kc && dataNoGen(da[s]) == dataNoGen(res.getData())) unit = true;
            if (kb[s] == Kc && dataNoGen(db[s]) == dataNoGen(res.getData())) unit = true;
        }
        CHECK(unit, "hit returns data that was stored as one unit for this key");
        CHECK(res.getGeneration() == tt.generation, "generation refreshed");
    } else {
        // a miss is only allowed when no un-torn unit for this key is visible before any other match
        bool present = false, earlier = false;
        for (int s = 0; s < 4; s++) {
            bool single = ka[s] == kb[s] && da[s] == db[s];
            if (!earlier && single && ka[s] == Kc && TTEntry(ka[s], da[s]).getType() != TType::T_EMPTY) present = true;
            if (!single || ka[s] == Kc) earlier = true;       // a torn slot or a matching slot may end the scan first
        }
        CHECK(!present, "intact unit for the key is found");
    }
    END();
}

// ---- O5: insert into an arbitrary bucket
static int valueOf(const TTEntry& e, int gen) { return ((e.getGeneration() == gen) ? 1024 : 0) + e.getDepth() + (e.getType() == TType::T_EXACT ? 3 : 0); }
void h_insert(void) {
    TT& tt = rawTT();
    tt.table = slots(); tt.tableSize = NSLOT; tt.contemptHash = nondet_u64();
    tt.generation = nondet_u8() & 15;
    tt.setUsedSize(NSLOT);
    U64 K = nondet_u64(); U64 Kc = K ^ tt.contemptHash;
    size_t idx0 = tt.getIndex(Kc);
    TTEntry old[4];
    for (int s = 0; s < 4; s++) { setw0(idx0 + s, nondet_u64()); setw1(idx0 + s, nondet_u64()); old[s].load(slots()[idx0 + s]); }
    U64 guardLo0 = idx0 >= 1 ? w1(idx0 - 1) : 0, guardHi0 = idx0 + 4 < (size_t)NSLOT ? w0(idx0 + 4) : 0;
    int f = nondet_int(), t = nondet_int(), p = nondet_int(), sc = nondet_int();
    int type = nondet_int(), ply = nondet_int(), depth = nondet_int(), ev = nondet_int(); bool busy = nondet_bool();
    ASSUME(f >= 0 && f < 64 && t >= 0 && t < 64 && p >= 0 && p <= 12);
    ASSUME(type >= 1 && type <= 3 && ply >= 0 && ply <= 200 && depth >= -8 && depth <= 511 && ev >= -32768 && ev <= 32767);
    ASSUME(sc >= -(32000 - ply) && sc <= 32000 - ply);
    Move sm(Square(f), Square(t), p, sc);
    tt.insert(K, sm, type, ply, depth, ev, busy);        // real
    int d = depth < 0 ? 0 : depth;
    // which slot changed?
    int changed = 0, who = -1;
    TTEntry now[4];
    for (int s = 0; s < 4; s++) { now[s].load(slots()[idx0 + s]); if (now[s].getKey() != old[s].getKey() || now[s].getData() != old[s].getData()) { changed++; who = s; } }
    verif_observe(changed); verif_observe(who);
    CHECK(changed <= 1, "at most one slot of the bucket written");
    CHECK((idx0 >= 1 ? w1(idx0 - 1) : 0) == guardLo0 && (idx0 + 4 < (size_t)NSLOT ? w0(idx0 + 4) : 0) == guardHi0, "neighbouring buckets untouched");
    int firstSame = -1;
    for (int s = 3; s >= 0; s--) if (old[s].getKey() == Kc) firstSame = s;
    if (changed == 1) {
        const TTEntry& n = now[who];
        CHECK(n.getKey() == Kc, "written unit carries the inserted key");
        CHECK(n.getScore(ply) == sc, "written score decodes to the inserted score at the same ply");
        CHECK(n.getDepth() == d && n.getType() == type && n.getEvalScore() == ev && n.getBusy() == busy && n.getGeneration() == tt.generation, "written fields");
        Move mm; n.getMove(mm);
        if (old[who].getKey() == Kc && f == t) { Move om; old[who].getMove(om); CHECK(mm == om, "null/empty move keeps the stored move of the same position"); }
        else CHECK(mm == sm, "written move");
        if (firstSame >= 0) CHECK(who == firstSame, "same-key slot is the one updated");
        else for (int s = 0; s < 4; s++) CHECK(valueOf(old[s], tt.generation) >= valueOf(old[who], tt.generation), "victim is a least valuable slot");
    }
    if (firstSame >= 0 && !busy && old[firstSame].getDepth() > d && old[firstSame].getType() == type && type == TType::T_EXACT)
        CHECK(changed == 0, "deeper exact entry for the same key is never overwritten by a shallower one");
    // afterwards a probe for the key hits
    TTEntry res;
    tt.probe(K, res);                                    // real
    CHECK(res.getType() != TType::T_EMPTY && res.getKey() == Kc, "probe after insert hits");
    if (changed == 1 && firstSame < 0) {
        int earlier = -1; for (int s = 0; s < who; s++) if (now[s].getKey() == Kc) earlier = s;
        CHECK(earlier < 0 && res.getScore(ply) == sc && res.getDepth() == d && res.getType() == type, "probe returns the inserted unit");
    }
    END();
}

// ---- O5b: setBusy re-inserts the same unit with the busy flag
void h_setbusy(void) {
    TT& tt = rawTT();
    tt.table = slots(); tt.tableSize = NSLOT; tt.contemptHash = 0;
    tt.generation = nondet_u8() & 15;
    tt.setUsedSize(NSLOT);
    U64 K = nondet_u64();
    size_t idx0 = tt.getIndex(K);
    for (int s = 0; s < 4; s++) { setw0(idx0 + s, nondet_u64()); setw1(idx0 + s, nondet_u64()); }
    TTEntry ent; tt.probe(K, ent);
    ASSUME(ent.getType() != TType::T_EMPTY);
    int ply = nondet_int(); ASSUME(ply >= 0 && ply <= 200);
    int rawScore = (S16)ent.getBits(16, 16);
    ASSUME(rawScore >= -32000 && rawScore <= 32000);
    int scoreAtPly = ent.getScore(ply);
    ASSUME(scoreAtPly >= -(32000 - ply) && scoreAtPly <= 32000 - ply);
    // scores that cross the win/lose threshold when shifted are not round-trip stable (documented limit)
    ASSUME(SearchConst::isWinScore(rawScore) == SearchConst::isWinScore(scoreAtPly) && SearchConst::isLoseScore(rawScore) == SearchConst::isLoseScore(scoreAtPly));
    tt.setBusy(ent, ply);                                // real
    TTEntry after; tt.probe(K, after);
    verif_observe(after.getData());
    CHECK(after.getType() == ent.getType() && after.getDepth() == ent.getDepth() && after.getEvalScore() == ent.getEvalScore(), "setBusy keeps type/depth/eval");
    CHECK(after.getBusy(), "busy flag set");
    CHECK((S16)after.getBits(16, 16) == rawScore, "setBusy keeps the stored score");
    Move a, b; after.getMove(a); ent.getMove(b);
    CHECK(a == b, "setBusy keeps the move");
    END();
}

} // extern "C"
