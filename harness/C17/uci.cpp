// C17 - text formats, UCI move text and square text kernels.
// Real code under test: lib/texellib/textio.cpp (uciStringToMove, moveToUCIString),
//                       lib/texellib/textio.hpp (getSquare, squareToString), plus the *real* libstdc++ std::string
//                       member functions they use (operator[], substr, operator+=, _M_construct, _M_replace_aux, ...),
//                       instantiated in this TU (see props/C17.py: -D_GLIBCXX_ASSERTIONS switches the
//                       'extern template class basic_string<char>' declaration off and turns the documented
//                       preconditions of operator[] etc. into checked assertions).
#include "textio.cpp"
#include "symstr.h"

// ---- independent oracle: UCI long algebraic move text (UCI protocol spec, "Move format") ----
// <file a-h><rank 1-8><file a-h><rank 1-8>[q|r|b|n]; squares numbered a1=0, b1=1, ..., h8=63.
static bool fileOk(unsigned char c) { return c >= 'a' && c <= 'h'; }
static bool rankOk(unsigned char c) { return c >= '1' && c <= '8'; }
static int promoKind(unsigned char c) { return c == 'q' ? 1 : c == 'r' ? 2 : c == 'b' ? 3 : c == 'n' ? 4 : 0; }  // 1..4 = Q,R,B,N
static int pieceOf(int kind, bool white) {             // piece.hpp numbering: WQ=2 WR=3 WB=4 WN=5, BQ=8 BR=9 BB=10 BN=11
    return kind == 0 ? 0 : (white ? 1 : 7) + kind;
}
static int kindOfPiece(int p) { return (p >= 2 && p <= 5) ? p - 1 : (p >= 8 && p <= 11) ? p - 7 : 0; }

extern "C" {

// ---- O1a: squareToString / getSquare round trip and exact text, all 64 squares
void h_square_rt(void) {
    symstr_forbid_heap();
    int sq = nondet_int(); ASSUME(sq >= 0 && sq <= 63);
    std::string s = TextIO::squareToString(Square(sq));            // real
    CHECK(s.length() == 2, "square text has two characters");
    CHECK(symstr_wellformed(s), "returned string well formed (data pointer, terminator)");
    const char* p = s._M_dataplus._M_p;
    CHECK(p[0] == 'a' + (sq % 8) && p[1] == '1' + (sq / 8), "square text is <file letter><rank digit>");
    Square r = TextIO::getSquare(s);                               // real
    verif_observe(r.asInt());
    CHECK(r.asInt() == sq, "getSquare(squareToString(sq)) == sq");
    END();
}

// ---- O1b: getSquare on arbitrary byte strings of length 1..MAXLEN (bytes after the terminator are arbitrary as well)
void h_getsquare_any(void) {
    SymStr ss; std::string& s = ss.make(1, SYM_MAXLEN);
    Square r = TextIO::getSquare(s);                               // real
    verif_observe(r.asInt());
    unsigned char c0 = ss.byte(0), c1 = ss.byte(1);                // byte(len) is the terminator 0
    if (fileOk(c0) && rankOk(c1)) CHECK(r.asInt() == (c1 - '1') * 8 + (c0 - 'a'), "getSquare: right square");
    else CHECK(r.asInt() == -1 && !r.isValid(), "getSquare: garbage => -1");
    END();
}

// ---- O1c: uciStringToMove on arbitrary byte strings of length 0..MAXLEN: total function, exact result
void h_uci_parse(void) {
    SymStr ss; std::string& s = ss.make(0, SYM_MAXLEN);
    size_t n = ss.len;
    Move m = TextIO::uciStringToMove(s);                           // real
    verif_observe(m.from().asInt()); verif_observe(m.to().asInt()); verif_observe(m.promoteTo()); verif_observe(m.score());
    int f = m.from().asInt(), t = m.to().asInt(), p = m.promoteTo();
    // safety envelope
    CHECK(f >= 0 && f <= 63 && t >= 0 && t <= 63, "squares of the result in [0,63]");
    CHECK(p == 0 || (p >= 2 && p <= 5) || (p >= 8 && p <= 11), "promotion code legal");
    CHECK(m.score() == 0, "score 0");
    CHECK(ss.intact(), "argument string not modified");
    // exact spec
    bool ok = (n == 4 || n == 5) && fileOk(ss.byte(0)) && rankOk(ss.byte(1)) && fileOk(ss.byte(2)) && rankOk(ss.byte(3));
    int kind = 0; bool white = true, quirk = false;
    if (ok && n == 5) {
        kind = promoKind(ss.byte(4));
        int toRank = ss.byte(3) - '1';
        if (kind == 0 || (toRank != 7 && toRank != 0)) ok = false;
        white = toRank == 7;
        // Pinned-down leniency of the real parser (not UCI syntax, harmless, unreachable through the UCI tokenizer which
        // never produces a token containing a blank): a fifth character ' ' with destination rank 1 or 8 is read as
        // "no promotion", e.g. "a7a8 " parses to a7a8.  Every other 5-byte string with a bad fifth byte is rejected.
        if (ss.byte(4) == ' ' && (toRank == 7 || toRank == 0)) quirk = true;
    }
    if (quirk) {
        CHECK(f == (ss.byte(1) - '1') * 8 + (ss.byte(0) - 'a') && t == (ss.byte(3) - '1') * 8 + (ss.byte(2) - 'a') && p == 0,
              "documented leniency: trailing blank on a rank-1/8 destination = move without promotion");
    } else if (ok) {
        CHECK(f == (ss.byte(1) - '1') * 8 + (ss.byte(0) - 'a'), "from square");
        CHECK(t == (ss.byte(3) - '1') * 8 + (ss.byte(2) - 'a'), "to square");
        CHECK(p == pieceOf(kind, white), "promotion piece: letter and colour (rank 8 => white, rank 1 => black)");
    } else {
        CHECK(f == 0 && t == 0 && p == 0, "garbage => empty move");
    }
    END();
}

// ---- O1d: moveToUCIString exact text, and uciStringToMove(moveToUCIString(m)) round trip with the colour normalisation
void h_uci_rt(void) {
    symstr_forbid_heap();
    int f = nondet_int(), t = nondet_int(), p = nondet_int(), sc = nondet_int();
    ASSUME(f >= 0 && f <= 63 && t >= 0 && t <= 63);
    ASSUME(p == 0 || (p >= 2 && p <= 5) || (p >= 8 && p <= 11));
    Move m(Square(f), Square(t), p, sc);
    std::string s = TextIO::moveToUCIString(m);                    // real
    int kind = kindOfPiece(p);
    CHECK(symstr_wellformed(s), "returned string well formed");
    CHECK(s.length() == (kind ? 5u : 4u), "text length 4, or 5 with promotion");
    const char* d = s._M_dataplus._M_p;
    CHECK(d[0] == 'a' + f % 8 && d[1] == '1' + f / 8 && d[2] == 'a' + t % 8 && d[3] == '1' + t / 8, "square text");
    if (kind) CHECK(d[4] == "qrbn"[kind - 1], "promotion letter lower case q/r/b/n");
    for (unsigned i = 0; i < s.length(); i++) verif_observe((unsigned char)d[i]);
    Move r = TextIO::uciStringToMove(s);                           // real
    verif_observe(r.from().asInt()); verif_observe(r.to().asInt()); verif_observe(r.promoteTo());
    int toRank = t / 8;
    if (kind == 0) {
        CHECK(r.from().asInt() == f && r.to().asInt() == t && r.promoteTo() == 0, "round trip, no promotion");
        CHECK(r == m, "round trip equals (Move::operator==)");
    } else if (toRank == 7 || toRank == 0) {
        // colour normalisation: the text carries no colour; it is re-derived from the destination rank
        CHECK(r.from().asInt() == f && r.to().asInt() == t, "round trip squares");
        CHECK(r.promoteTo() == pieceOf(kind, toRank == 7), "round trip promotion: same kind, colour from destination rank");
        bool sameColour = (p <= 5) == (toRank == 7);
        CHECK((r == m) == sameColour, "round trip exact iff promotion colour matches destination rank");
    } else {
        CHECK(r.isEmpty() && r.promoteTo() == 0, "promotion to a rank other than 1/8 does not parse back (empty move)");
    }
    CHECK(r.score() == 0, "parsed score 0");
    END();
}

}
