// C17 - text formats, FEN reader: the character-level scanner of TextIO::readFEN on arbitrary bytes.
// Real code under test: lib/texellib/textio.cpp (readFEN 34-178), textio.hpp (safeSetPiece, getSquare),
//                       position.hpp/.cpp (Position(), getPiece, setWhiteMove, setCastleMask, setEpSquare, copy constructor),
//                       the real libstdc++ std::string / std::array accessors with _GLIBCXX_ASSERTIONS.
// Stubbed (listed in props/C17.py): Position::setPiece (board write only; hash/material bookkeeping is C02's subject),
//   MoveGen::inCheck (any answer), TextIO::fixupEPSquare (no-op; move generation is C01's subject),
//   str2Num(string,int&) (std::stoi -> libc strtol; any answer).
#include "material.cpp"
#include "parameters.cpp"
#include "position.cpp"
#include "textio.cpp"
#include "symstr.h"
#include <cstdarg>

// ---------------- stubs ----------------
static bool stub_inCheck;
static int nSetPiece;
extern "C" void model_setPiece(Position* pos, Square sq, int piece) {
    CHECK(sq.asInt() >= 0 && sq.asInt() <= 63, "setPiece: square index in [0,63]");
    CHECK(piece >= 1 && piece <= 12, "setPiece: piece code in [1,12]");
    pos->squares.tbl._M_elems[sq.asInt() & 63] = piece;
    nSetPiece++;
}
extern "C" bool model_inCheck(const Position& pos) { return stub_inCheck; }
extern "C" void model_fixupEPSquare(Position& pos) { }
static bool stub_numOk[2]; static int stub_num[2]; static int nNum;
extern "C" bool model_str2Num(const std::string& s, int& result) {
    CHECK(symstr_wellformed(s), "numeric field substring well formed");
    CHECK(s.length() >= 1, "numeric field substring not empty");
    int k = nNum < 2 ? nNum : 1; nNum++;
    result = stub_numOk[k] ? stub_num[k] : 0;
    return stub_numOk[k];
}
// exceptions: ChessParseError (thrown with a throw-expression => __cxa_allocate_exception) is the correct rejection;
// the libstdc++ helper throwers (std::out_of_range from substr, length_error, logic_error, bad_alloc) are never acceptable.
static bool expectKnown, expectAccept;
extern "C" void* model_alloc_exception(size_t n) {
    if (expectKnown) CHECK(!expectAccept, "FEN the specification accepts was rejected");
    verif_throw_event();
    return 0;
}
// ChessParseError's constructor runs after the throw event (path already ended); not lowered so that its vtable/type_info are not pulled in
extern "C" void model_cpe_ctor(ChessParseError* self, const std::string& msg) { }
extern "C" void model_throw_fmt(const char* fmt, ...) { CHECK(false, "std::out_of_range thrown (substr position past the end)"); ASSUME(false); }
extern "C" void model_throw_msg(const char* msg) { CHECK(false, "std::length_error/logic_error/out_of_range thrown"); ASSUME(false); }

// ---------------- independent oracle: FEN (PGN standard 16.1) ----------------
static const char pieceLetters[13] = "KQRBNPkqrbnp";      // piece code = index + 1 (piece.hpp: WKING=1 .. BPAWN=12)
static int letterToPiece(unsigned char c) { for (int k = 0; k < 12; k++) if ((unsigned char)pieceLetters[k] == c) return k + 1; return 0; }
struct Spec {
    int board[64]; bool placementOk; size_t placementEnd;
    bool strict;           // rest of the string is "<side> <castling> [<ep> [<n> [<n>]]]" with single blanks
    bool white; int castleLetters; int epFile, epRank;   // epFile -1: '-' or absent
    int nNumFields;
};
// Piece placement field: ranks 8..1 separated by '/', digits = that many empty squares, letters = pieces.
// (texel's dialect: a rank may be short or missing; more than 8 files / more than 8 ranks / pawn on rank 1 or 8 / other bytes => error)
static void specPlacement(const SymStr& ss, Spec& sp) {
    for (int i = 0; i < 64; i++) sp.board[i] = 0;
    int rank = 7, file = 0; size_t i = 0; sp.placementOk = true;
    for (; i < ss.maxlen && i < ss.len && ss.byte(i) != ' '; i++) {
        unsigned char c = ss.byte(i);
        if (c >= '1' && c <= '8') { file += c - '0'; continue; }
        if (c == '/') { rank--; file = 0; if (rank < 0) { sp.placementOk = false; break; } continue; }
        int p = letterToPiece(c);
        if (!p || file > 7 || ((p == 6 || p == 12) && (rank == 0 || rank == 7))) { sp.placementOk = false; break; }
        sp.board[rank * 8 + file] = p; file++;
    }
    sp.placementEnd = i;
}
static bool isDigit(unsigned char c) { return c >= '0' && c <= '9'; }
// strict remainder, starting at the blank after the placement field
static void specRest(const SymStr& ss, Spec& sp) {
    sp.strict = false; sp.castleLetters = 0; sp.epFile = -1; sp.epRank = -1; sp.nNumFields = 0; sp.white = false;
    size_t i = sp.placementEnd, n = ss.len;
    if (!(i + 1 < n && ss.byte(i) == ' ')) return; i++;
    if (ss.byte(i) != 'w' && ss.byte(i) != 'b') return;
    sp.white = ss.byte(i) == 'w'; i++;
    if (i == n) { sp.strict = true; return; }
    if (!(i + 1 < n && ss.byte(i) == ' ')) return; i++;
    if (ss.byte(i) == '-') i++;
    else {
        size_t k = 0;
        for (; k < 4 && i < n; i++, k++) {
            unsigned char c = ss.byte(i);
            if (c == 'K') sp.castleLetters |= 2; else if (c == 'Q') sp.castleLetters |= 1;      // bit numbers: A1=0 H1=1 A8=2 H8=3
            else if (c == 'q') sp.castleLetters |= 4; else if (c == 'k') sp.castleLetters |= 8;
            else break;
        }
        if (k == 0) return;
    }
    if (i == n) { sp.strict = true; return; }
    if (!(i + 1 < n && ss.byte(i) == ' ')) return; i++;
    if (ss.byte(i) == '-') i++;
    else {
        if (!(i + 1 < n && ss.byte(i) >= 'a' && ss.byte(i) <= 'h' && ss.byte(i + 1) >= '1' && ss.byte(i + 1) <= '8')) return;
        sp.epFile = ss.byte(i) - 'a'; sp.epRank = ss.byte(i + 1) - '1'; i += 2;
    }
    for (int f = 0; f < 2; f++) {
        if (i == n) { sp.strict = true; return; }
        if (!(i + 1 < n && ss.byte(i) == ' ' && isDigit(ss.byte(i + 1)))) return; i++;
        while (i < ss.maxlen && i < n && isDigit(ss.byte(i))) i++;
        sp.nNumFields++;
    }
    if (i == n) sp.strict = true;
}

static void runFen(SymStr& ss, std::string& fen) {
    stub_inCheck = nondet_bool();
    for (int k = 0; k < 2; k++) { stub_numOk[k] = nondet_bool(); stub_num[k] = nondet_int(); }
    nNum = 0; nSetPiece = 0;
    Spec sp; specPlacement(ss, sp); specRest(ss, sp);
    int wk = 0, bk = 0;
    for (int i = 0; i < 64; i++) { if (sp.board[i] == 1) wk++; if (sp.board[i] == 7) bk++; }
    // strict FEN with one king each and the side not to move not in check must be accepted
    expectKnown = sp.placementOk && sp.strict; expectAccept = expectKnown && wk == 1 && bk == 1 && !stub_inCheck;

    Position pos = TextIO::readFEN(fen);                           // real (paths that throw ChessParseError end here)

    // ---- accepted: invariants for every accepted input
    CHECK(ss.intact(), "argument string not modified");
    CHECK(sp.placementOk, "accepted => placement field is well formed");
    bool same = true, valid = true; int wk2 = 0, bk2 = 0;
    for (int i = 0; i < 64; i++) {
        int p = pos.squares.tbl._M_elems[i];
        if (p != sp.board[i]) same = false;
        if (p < 0 || p > 12) valid = false;
        if ((p == 6 || p == 12) && (i < 8 || i >= 56)) valid = false;
        if (p == 1) wk2++; if (p == 7) bk2++;
        verif_observe(p);
    }
    CHECK(same, "accepted => board equals the placement field");
    CHECK(valid, "accepted => piece codes legal, no pawn on rank 1/8");
    CHECK(wk2 == 1 && bk2 == 1, "accepted => exactly one king each");
    CHECK(!stub_inCheck, "accepted => side not to move not in check (stub answer respected)");
    int cm = pos.castleMask, ep = pos.epSquare.asInt();
    verif_observe(pos.whiteMove); verif_observe(cm); verif_observe(ep); verif_observe(pos.halfMoveClock); verif_observe(pos.fullMoveCounter);
    const int* b = sp.board;
    CHECK(cm >= 0 && cm <= 15, "castle mask in [0,15]");
    CHECK(!(cm & 2) || (b[4] == 1 && b[7] == 3), "H1 castle right => Ke1, Rh1");
    CHECK(!(cm & 1) || (b[4] == 1 && b[0] == 3), "A1 castle right => Ke1, Ra1");
    CHECK(!(cm & 8) || (b[60] == 7 && b[63] == 9), "H8 castle right => ke8, rh8");
    CHECK(!(cm & 4) || (b[60] == 7 && b[56] == 9), "A8 castle right => ke8, ra8");
    if (ep != -1) {
        CHECK(ep >= 0 && ep <= 63, "ep square in range");
        if (pos.whiteMove) CHECK(ep / 8 == 5 && b[ep] == 0 && b[ep - 8] == 12, "ep (white to move): rank 6, empty, black pawn below");
        else CHECK(ep / 8 == 2 && b[ep] == 0 && b[ep + 8] == 6, "ep (black to move): rank 3, empty, white pawn above");
    }
    // ---- strict FEN: exact field values
    if (sp.strict) {
        CHECK(pos.whiteMove == sp.white, "side to move");
        int expCm = sp.castleLetters;
        if (!(b[4] == 1 && b[7] == 3)) expCm &= ~2;
        if (!(b[4] == 1 && b[0] == 3)) expCm &= ~1;
        if (!(b[60] == 7 && b[63] == 9)) expCm &= ~8;
        if (!(b[60] == 7 && b[56] == 9)) expCm &= ~4;
        CHECK(cm == expCm, "castle mask = letters given, restricted to kings/rooks on their home squares");
        int expEp = -1;
        if (sp.epFile >= 0) {
            int s = sp.epRank * 8 + sp.epFile;
            if (sp.white ? (sp.epRank == 5 && b[s] == 0 && b[s - 8] == 12) : (sp.epRank == 2 && b[s] == 0 && b[s + 8] == 6)) expEp = s;
        }
        CHECK(ep == expEp, "ep square = the one given if geometrically possible, else none");
        CHECK(nNum == sp.nNumFields, "each numeric field converted once");
        CHECK(pos.halfMoveClock == ((sp.nNumFields >= 1 && stub_numOk[0]) ? stub_num[0] : 0), "half-move clock = converted field, default 0");
        CHECK(pos.fullMoveCounter == ((sp.nNumFields >= 2 && stub_numOk[1]) ? stub_num[1] : 1), "move counter = converted field, default 1");
    }
}

#ifndef FEN_TAIL_MAX
#define FEN_TAIL_MAX 6
#endif
static const char* const prefixes[] = {
    "",
    "4k3/8/8/3pP3/8/8/8/4K3 ",          // 1: white to move may capture e5xd6 e.p.
    "r3k2r/8/8/8/3Pp3/8/8/R3K2R ",      // 2: all castling rights possible; black to move may capture e4xd3 e.p.
    "4k3/8/8/8/8/8/8/4K3",              // 3: tail starts right after the placement field (blank runs, missing fields)
    "4k3/8/3N4/3pP3/8/8/8/4K3 ",        // 4: white to move, the square above the black pawn d5 is occupied (d6) while d7 is empty: "d6" must be refused
    "4k3/8/8/8/3Pp3/3n4/8/4K3 ",        // 5: black to move, the square below the white pawn d4 is occupied (d3) while d2 is empty: "d3" must be refused
};

extern "C" {

// ---- O2a: arbitrary byte string of length 0..SYM_MAXLEN
void h_fen_any(void) {
    SymStr ss; std::string& fen = ss.make(0, SYM_MAXLEN);
    runFen(ss, fen);
    END();
}

// ---- O2b: fixed placement field (verif_param selects it) followed by an arbitrary tail of 0..FEN_TAIL_MAX bytes
void h_fen_tail(void) {
    unsigned k = verif_param(); ASSUME(k >= 1 && k <= 5);
    const char* pre = prefixes[k];
    size_t pl = 0; while (pre[pl]) pl++;
    SymStr ss; std::string& fen = ss.makePrefixed(pre, pl, 0, FEN_TAIL_MAX);
    runFen(ss, fen);
    END();
}

}
