// C17 - the SAN writer proper: file-static moveToString(pos, move, longForm, moves) of textio.cpp (piece letter, disambiguation
// by file/rank from the legal-move list, capture mark, target, promotion, castling text), on symbolic K-man positions.
// Specification used (PGN standard 8.2.3, not a transcription of the code): castling text is written exactly for castling moves;
// two different moves present in the list never get the same text (otherwise the text cannot parse back to the move);
// the text carries the target square.  The check/mate suffix (MoveGen::givesCheck, move generation for '#') is stubbed off.
// Real std::string code is lowered as in uci.cpp (-D_GLIBCXX_ASSERTIONS).
#include "bitBoard.cpp"
#include "material.cpp"
#include "position.cpp"
#include "moveGen.cpp"
#include "textio.cpp"
#include "symstr.h"
#include "models.h"

int pieceValue[Piece::nPieceTypes];
DEFINE_PARAM(kV);
#ifndef NMEN
#define NMEN 4
#endif
#include "../C01/oracle.h"

extern "C" bool model_givesCheck_off(const Position& pos, const Move& m) { return false; }

static bool sameText(const std::string& a, const std::string& b) {
    if (a.length() != b.length()) return false;
    bool eq = true;
    for (size_t i = 0; i < 8; i++) if (i < a.length() && a._M_dataplus._M_p[i] != b._M_dataplus._M_p[i]) eq = false;
    return eq;
}
static bool isText(const std::string& a, const char* t, size_t n) {
    if (a.length() != n) return false;
    bool eq = true;
    for (size_t i = 0; i < n; i++) if (a._M_dataplus._M_p[i] != t[i]) eq = false;
    return eq;
}

extern "C" void h_san_writer(void) {
    symstr_forbid_heap();
    const bool wtm = (verif_param() & 1) != 0, longForm = (verif_param() & 2) != 0;
    Brd b; symbolicBoardAnyMover(b, wtm);
    int f1 = nondet_int(), t1 = nondet_int(), p1 = nondet_int(), f2 = nondet_int(), t2 = nondet_int(), p2 = nondet_int();
    ASSUME(f1 >= 0 && f1 < 64 && t1 >= 0 && t1 < 64 && p1 >= 0 && p1 <= 12 && f2 >= 0 && f2 < 64 && t2 >= 0 && t2 < 64 && p2 >= 0 && p2 <= 12);
    bool e1, c1, e2, c2;
    ASSUME(pseudoLegal(b, f1, t1, p1, e1, c1)); ASSUME(pseudoLegal(b, f2, t2, p2, e2, c2));
    ASSUME(f1 != f2 || t1 != t2 || p1 != p2);
    Position& pos = buildPos(b);
    Move m1(Square(f1), Square(t1), p1), m2(Square(f2), Square(t2), p2);
    // the move list handed to the writer contains both moves; with K <= 4 men at most two men of one kind and colour exist, so
    // no third entry can have the same piece kind and target as m1 or m2 (entries that differ in either are ignored by the writer)
    MoveList moves; moves.size = 2; moves[0] = m1; moves[1] = m2;
    std::string s1 = ::moveToString(pos, m1, longForm, moves);      // real (file-static)
    std::string s2 = ::moveToString(pos, m2, longForm, moves);      // real
    verif_observe(s1.length()); verif_observe(s2.length()); verif_observe((unsigned char)s1._M_dataplus._M_p[0]);
    CHECK(symstr_wellformed(s1) && symstr_wellformed(s2), "move text is a well-formed string");
    CHECK(s1.length() >= 2 && s1.length() <= 7, "move text has 2..7 characters");
    bool castleText = isText(s1, "O-O", 3) || isText(s1, "O-O-O", 5);
    CHECK(castleText == c1, "castling text is written exactly for castling moves");
    if (c1) CHECK(isText(s1, (t1 & 7) == 6 ? "O-O" : "O-O-O", (t1 & 7) == 6 ? 3 : 5), "king-side O-O, queen-side O-O-O");
    else {
        size_t n = s1.length() - (p1 != 0 ? 1 : 0);
        CHECK(n >= 2 && s1._M_dataplus._M_p[n - 2] == 'a' + (t1 & 7) && s1._M_dataplus._M_p[n - 1] == '1' + (t1 >> 3), "move text ends with the target square (before the promotion letter)");
    }
    CHECK(!sameText(s1, s2), "two different moves of one position never get the same text");
    END();
}
