// C17 - text formats, UCI command-line tokenizer on arbitrary bytes.
// Real code under test: app/texel/uciprotocol.cpp (UCIProtocol::tokenize 309-329), lib/texellib/util/util.cpp (trim),
//                       the real libstdc++ std::string (substr, operator[], move construction) and
//                       std::vector<std::string> push_back / emplace_back / clear code (growth path _M_realloc_insert excluded: capacity pre-reserved), _GLIBCXX_ASSERTIONS on.
// Stub: isspace() (libc, locale table) -> "C" locale definition, defined for every value a char can take.
#include "util.cpp"
#include "uciprotocol.cpp"
#include "symstr.h"

// libc isspace in the "C" locale: HT, LF, VT, FF, CR, blank.  The code passes a plain (signed) char, so bytes >= 0x80
// arrive as negative ints: formally outside isspace's domain in ISO C; glibc's table is defined for -128..255 and
// answers "not a space" for them in the "C" locale.  The model follows glibc and asserts the glibc domain.
extern "C" int model_isspace(int c) {
    CHECK(c >= -128 && c <= 255, "isspace argument inside glibc's table [-128,255]");
    return (c >= 9 && c <= 13) || c == 32;
}
static const unsigned char spaceBytes[6] = { ' ', '\t', '\n', '\v', '\f', '\r' };
static bool specSpace(unsigned char c) { for (int k = 0; k < 6; k++) if (spaceBytes[k] == c) return true; return false; }

#ifndef TOK_MAXLEN
#define TOK_MAXLEN 6
#endif
#define TOK_CAP (TOK_MAXLEN / 2 + 1)          /* most tokens a line of TOK_MAXLEN bytes can hold */
alignas(16) static unsigned char tpmem[sizeof(UCIProtocol)];
alignas(16) static unsigned char vecmem[sizeof(std::vector<std::string>)];
static std::string tokstore[TOK_CAP];          // raw room for the tokens (typed, so that CBMC sees struct accesses, not byte updates)
// char_traits<char>::copy == memcpy; with a symbolic length CBMC's built-in memcpy model explodes, a byte loop does not
extern "C" char* model_traits_copy(char* d, const char* s, size_t n) { for (size_t i = 0; i < n; i++) d[i] = s[i]; return d; }
// the vector handed to tokenize() has room for TOK_CAP tokens, so libstdc++'s reallocation path must not be taken
extern "C" void model_realloc_insert(std::vector<std::string>* v, std::string* pos, std::string* arg) {
    CHECK(false, "vector reallocation although capacity suffices (more tokens than a line of this length can hold)");
    ASSUME(false);
}

extern "C" {

// ---- O3a: trim() = the line without leading and trailing whitespace bytes
void h_trim(void) {
    size_t L = verif_param(); ASSUME(L <= TOK_MAXLEN);             // case split: one query per line length
    SymStr ss; std::string& line = ss.make(L, L);
    std::string t = trim(line);                                    // real
    CHECK(ss.intact(), "argument string not modified");
    CHECK(symstr_wellformed(t), "result well formed");
    size_t lo = 0, hi = L;                                         // [lo,hi) = what remains
    while (lo < L && specSpace(ss.byte(lo))) lo++;
    while (hi > lo && specSpace(ss.byte(hi - 1))) hi--;
    verif_observe(t.length());
    CHECK(t.length() == hi - lo, "trim: length");
    bool same = true;
    if (t.length() == hi - lo) for (size_t q = 0; q < L && q < hi - lo; q++) if ((unsigned char)t._M_dataplus._M_p[q] != ss.byte(lo + q)) same = false;
    CHECK(same, "trim: content");
    END();
}

// ---- O3b: tokenize()
void h_tokenize(void) {
    size_t L = verif_param(); ASSUME(L <= TOK_MAXLEN);             // case split: one query per line length
    SymStr ss; std::string& line = ss.make(L, L);
    size_t n = ss.len;
    std::vector<std::string>& tokens = *reinterpret_cast<std::vector<std::string>*>(vecmem);
    pointVec(tokens, tokstore, 0, TOK_CAP);   // empty, capacity TOK_CAP
    UCIProtocol& up = *reinterpret_cast<UCIProtocol*>(tpmem);     // tokenize() does not touch *this
    up.tokenize(line, tokens);                                    // real
    CHECK(ss.intact(), "argument string not modified");
    // specification: the tokens are the maximal runs of non-whitespace bytes, in order
    // (pinned-down quirk: a line without any such run yields exactly one empty token; handleCommand ignores it)
    size_t nt = tokens.size();
    verif_observe(nt);
    size_t k = 0, i = 0;
    bool allOk = true;
    for (size_t step = 0; step <= L; step++) {                      // at most L/2+1 runs
        while (i < ss.maxlen && i < n && specSpace(ss.byte(i))) i++;
        if (!(i < n)) break;
        size_t j = i;
        while (j < ss.maxlen && j < n && !specSpace(ss.byte(j))) j++;
        // run [i,j)
        if (k < nt) {
            const std::string& t = tokens[k];
            if (!symstr_wellformed(t) || t.length() != j - i) allOk = false;
            else for (size_t q = 0; q < L && q < j - i; q++) if ((unsigned char)t._M_dataplus._M_p[q] != ss.byte(i + q)) allOk = false;
        }
        k++; i = j;
    }
    if (k == 0) {
        CHECK(nt == 1, "blank line => one (empty) token");
        if (nt == 1) CHECK(symstr_wellformed(tokens[0]) && tokens[0].length() == 0, "blank line => the token is empty");
    } else {
        CHECK(nt == k, "number of tokens = number of non-blank runs");
        CHECK(allOk, "every token equals its run of bytes");
    }
    for (size_t q = 0; q < L + 1 && q < nt; q++) { verif_observe(tokens[q].length()); CHECK(tokens[q].length() > 0 || k == 0, "no empty tokens"); }
    END();
}

}
