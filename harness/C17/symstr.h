// Harness-built std::string arguments with symbolic content (libstdc++ cxx11 ABI layout:
//   { char* _M_p; size_t _M_string_length; union { char _M_local_buf[16]; size_t _M_allocated_capacity; } }, 32 bytes).
// Short strings (<= 15 bytes) use the object's own 16-byte buffer, exactly like a string built by libstdc++;
// every byte of the buffer except the terminator is symbolic (also the bytes *after* the terminator).
// Longer strings point at a malloc'ed block of exactly length+1 bytes, so any read past the terminator is an
// out-of-bounds access for CBMC's pointer checks.
#ifndef SYMSTR_H
#define SYMSTR_H
#include <string>
#include <cstdlib>
#include "verif.h"
#ifndef SYM_MAXLEN
#define SYM_MAXLEN 7
#endif
#define SYM_CAP 40
static_assert(sizeof(std::string) == 32, "libstdc++ cxx11 std::string layout expected");

static inline void symstr_forbid_heap();
// the argument string object (typed, so that CBMC sees field accesses; one harness-built string per entry)
static std::string symstr_obj;
struct SymStr {
    unsigned char* mem;            // raw storage of the std::string object (its own 32-byte object)
    unsigned char copy[SYM_CAP];   // harness-side copy of the content (oracle reads this, never the object)
    size_t len, maxlen;            // maxlen: concrete upper bound of len (keeps harness loops concretely bounded)
    char* data;
    std::string& str() { return *reinterpret_cast<std::string*>(mem); }
    // arbitrary content, lo <= length <= hi
    std::string& make(size_t lo, size_t hi) { return makePrefixed("", 0, lo, hi); }
    // concrete prefix (pl bytes) followed by an arbitrary tail of lo..hi bytes.
    // pl + hi <= 15: the object's own 16-byte buffer (exact size of the real thing).  Otherwise a heap block of
    // capacity pl+hi (a real string's capacity may exceed its length as well); reads between the terminator and the
    // capacity are then caught by the _GLIBCXX_ASSERTIONS preconditions, reads past the capacity by the pointer checks.
    std::string& makePrefixed(const char* pre, size_t pl, size_t lo, size_t hi) {
        symstr_forbid_heap();
        mem = reinterpret_cast<unsigned char*>(&symstr_obj);
        std::string& s = str();
        size_t tl = nondet_u8(); ASSUME(tl >= lo && tl <= hi && pl + hi < SYM_CAP);
        if (lo == hi) tl = lo;                               // fixed length (case split by the driver): keep it concrete
        len = pl + tl; maxlen = pl + hi;
        size_t cap = pl + hi <= 15 ? 15 : pl + hi;
        if (cap == 15) data = s._M_local_buf;
        else { data = (char*)malloc(cap + 1); s._M_allocated_capacity = cap; }
        for (size_t i = 0; i < pl; i++) { copy[i] = (unsigned char)pre[i]; data[i] = pre[i]; }
        for (size_t i = pl; i <= cap; i++) {                 // symbolic tail, terminator, then garbage up to the capacity
            unsigned char c = nondet_u8();
            if (i == len) c = 0;
            data[i] = (char)c; copy[i] = i < len ? c : 0;
        }
        for (size_t i = cap + 1; i < SYM_CAP; i++) copy[i] = 0;
        s._M_dataplus._M_p = data; s._M_string_length = len;
        return s;
    }
    unsigned char byte(size_t i) const { return i < SYM_CAP ? copy[i] : 0; }
    bool intact() {
        std::string& s = str();
        if (s._M_dataplus._M_p != data || s._M_string_length != len) return false;
        for (size_t i = 0; i <= maxlen && i <= len; i++) if ((unsigned char)data[i] != copy[i]) return false;
        return true;
    }
};

// _GLIBCXX_ASSERTIONS failure hook: std::__glibcxx_assert_fail is redirected here (props/C17.py aliases), so a violated
// libstdc++ precondition (operator[] index > size(), front()/back()/pop_back() on empty, ...) is a harness assertion
// failure in CBMC *and* in the native replay.
extern "C" void model_glibcxx_assert_fail(const char* file, int line, const char* func, const char* cond) {
    CHECK(false, "libstdc++ precondition violated (_GLIBCXX_ASSERTIONS)");
    ASSUME(false);
}

// std::allocator<char> constructors/destructors (empty functions, but 'extern template' => defined only in libstdc++.so)
extern "C" void model_alloc_noop(std::allocator<char>* self) { }
extern "C" void model_alloc_noop2(std::allocator<char>* self, const std::allocator<char>& other) { }

// operator new for units whose strings provably stay within the 15-byte SSO buffer (props/C17.py says which): the heap
// path of basic_string::_M_create must then be unreachable; reaching it fails the query instead of being explored with a
// symbolic-size heap object (which makes CBMC's array theory explode).
static bool symstr_noheap;     // set by the entries; static initialisers (run natively before the entry) may allocate
static inline void symstr_forbid_heap() { symstr_noheap = true; }
extern "C" void* model_no_heap(size_t n) {
    if (!symstr_noheap) return malloc(n ? n : 1);
    CHECK(false, "heap allocation reached although every string of this harness fits the 15-byte SSO buffer");
    ASSUME(false);
    return 0;
}

// a std::string produced by the code under test: data pointer set, terminated, SSO invariant
static inline bool symstr_wellformed(const std::string& s) {
    const char* p = s._M_dataplus._M_p;
    if (!p) return false;
    bool local = p == s._M_local_buf;
    if (local && s._M_string_length > 15) return false;
    if (!local && s._M_allocated_capacity < s._M_string_length) return false;
    return p[s._M_string_length] == 0;
}
#endif
