// C17 - the capture test of the move-to-text code (static isCapture in textio.cpp: decides the 'x' of short and long algebraic
// notation): for a symbolic K-man position and every pseudo-legal move of the chosen mover (list-of-men oracle),
//   isCapture(pos, m) <=> the destination square is occupied or m is an en-passant capture.
// Real code under test: isCapture (textio.cpp:339-346), Position::getPiece/getEpSquare/isWhiteMove.  The SAN writer and parser around it
// (std::string building driven by the legal move list) stay outside the claim.
#include "bitBoard.cpp"
#include "material.cpp"
#include "position.cpp"
#include "moveGen.cpp"
#include "textio.cpp"
#include "verif.h"
#include "models.h"

int pieceValue[Piece::nPieceTypes];
DEFINE_PARAM(kV);

#ifndef NMEN
#define NMEN 4
#endif
#include "../C01/oracle.h"

extern "C" void h_iscapture(void) {
    Brd b; int j; symbolicBoard(b, j);
    int from = b.men[j].s, to = nondet_int(), prom = nondet_int();
    ASSUME(to >= 0 && to < 64 && prom >= 0 && prom <= 12);
    bool epCap, castleMove;
    if (j < 2) ASSUME((moveClass == 1) == (iabs((to & 7) - (from & 7)) == 2));
    ASSUME(pseudoLegal(b, from, to, prom, epCap, castleMove));
    Position& pos = buildPos(b);
    Move m(Square(from), Square(to), prom);
    bool c = isCapture(pos, m);                          // real (file-static function, same translation unit)
    verif_observe(c);
    CHECK(c == (pieceAt(b, to) != 0 || epCap), "isCapture <=> destination occupied or en-passant capture");
    if (epCap) CHECK(pieceAt(b, to) == 0 && to == b.ep, "an en-passant capture lands on the empty en-passant square");
    END();
}
