// C18 - opening book, Book half: the legality guard / weighted choice of Book::getBookMove, and the binary search
// over 16-byte polyglot entries in Book::getBookEntries.
// Real code under test: lib/texellib/book/book.cpp (getBookMove 46-90, getBookEntries 106-160, getWeight), polyglot.cpp.
#include "book.cpp"
#include "polyglot.cpp"
#include "verif.h"
#include <cstring>

// The UCI parameter object the book code consults (parameters.cpp is not part of the unit): a StringParam constructed
// like parameters.cpp:47 does, held in static storage; UciParams::bookFile is pointed at it by the harness.
// Its string value is set by the harness: "" = built-in book, non-empty = polyglot file.
static Parameters::StringParam theBookFileParam("BookFile", "");
namespace UciParams { std::shared_ptr<Parameters::StringParam> bookFile; }
static void setBookFile(bool pg) {
    UciParams::bookFile._M_ptr = &theBookFileParam;
    std::string& v = theBookFileParam.value;                   // short string, stays in the in-object buffer
    v._M_dataplus._M_p = v._M_local_buf; v._M_local_buf[0] = pg ? 'b' : 0; v._M_local_buf[1] = 0; v._M_string_length = pg ? 1 : 0;
}
// libstdc++ std::string copy constructor / destructor (extern templates): models for strings that fit the in-object buffer
extern "C" void model_string_copy(std::string* dst, const std::string* src) {
    dst->_M_dataplus._M_p = dst->_M_local_buf;
    for (int i = 0; i < 16; i++) dst->_M_local_buf[i] = src->_M_local_buf[i];
    dst->_M_string_length = src->_M_string_length;
}
extern "C" void model_string_dtor(std::string* s) { }
extern "C" const char* model_string_cstr(const std::string* s) { return s->_M_dataplus._M_p; }
extern "C" bool model_string_empty(const std::string* s) { return s->_M_string_length == 0; }

// Random (util/random.cpp is not part of the unit; the generator is stubbed): the static Book::rndGen needs a constructor
Random::Random() { for (int i = 0; i < 4; i++) s[i] = 0; }

union PosStore { Position p; PosStore() {} ~PosStore() {} };
static PosStore posStore;
static Position& rawPos() { return posStore.p; }
alignas(8) static unsigned char bookmem[8];
static Book& rawBook() { return *reinterpret_cast<Book*>(bookmem); }

// =====================================================================================================
// O3: getBookMove with arbitrary book entries, arbitrary legal-move list, any RNG value
// =====================================================================================================
#ifndef NCAND
#define NCAND 4
#endif
#ifndef NLEGAL
#define NLEGAL 6
#endif
static int nCand, candF[NCAND], candT[NCAND], candP[NCAND], candCnt[NCAND];
static int nLegal, legF[NLEGAL], legT[NLEGAL], legP[NLEGAL];
static int rngRet, rngArg, rngCalls, entriesCalls, genCalls;

extern "C" void model_initBook(Book* b) { }
// Book::getBookEntries: arbitrary candidates (heap storage, released by the real vector destructor)
extern "C" void model_getBookEntries(const Book* b, const Position& pos, std::vector<Book::BookEntry>& out) {
    entriesCalls++;
    if (nCand == 0) return;
    Book::BookEntry* p = static_cast<Book::BookEntry*>(::operator new(NCAND * sizeof(Book::BookEntry)));
    for (int i = 0; i < NCAND; i++) if (i < nCand) { p[i].move = Move(Square(candF[i]), Square(candT[i]), candP[i]); p[i].count = candCnt[i]; }
    pointVec(out, p, nCand, NCAND);
}
// MoveGen::pseudoLegalMoves + removeIllegal: together they yield "the legal moves" (C01); here an arbitrary list
extern "C" void model_pseudoLegalMoves(const Position& pos, MoveList& ml) {
    genCalls++;
    ml.size = nLegal;
    for (int i = 0; i < NLEGAL; i++) if (i < nLegal) ml[i] = Move(Square(legF[i]), Square(legT[i]), legP[i], 17 + i);   // scores differ from the book's on purpose
}
extern "C" void model_removeIllegal(Position& pos, MoveList& ml) { }
extern "C" int model_nextInt(Random* r, int modulo) { rngCalls++; rngArg = modulo; return rngRet; }
// getWeight for the built-in book (floating point, sqrt) is replaced in h_guard_builtin by an arbitrary *function* of the
// count with values in [1, WMAX] (same count => same weight; the values at the queried counts are solver variables);
// h_weight proves that the real getWeight(count,false) has this range for count in [1, CMAX].
#define CMAX 306            // the built-in book has 306 lines: no count can exceed it
#define WMAX 9363601        // CMAX^2*100+1 (what the sqrt contract below yields; the true maximum is far smaller)
static int wOf[NCAND];
extern "C" int model_getWeight(Book* b, int count, bool pg) {
    if (pg) return count;
    int r = 1;
    for (int i = 0; i < NCAND; i++) if (i < nCand && candCnt[i] == count) r = wOf[i];
    return r;
}
// libm sqrt on a finite non-negative argument: some r with 0 <= r <= max(1, x)   (used by h_weight only)
static bool sqrtArgOk = true;
extern "C" double model_sqrt(double x) {
    if (!(x >= 0.0 && x <= 1e300)) sqrtArgOk = false;
    U64 bits = nondet_u64(); double r; memcpy(&r, &bits, 8);
    ASSUME(r >= 0.0 && r <= (x < 1.0 ? 1.0 : x));
    return r;
}

static bool sameMove(int f1, int t1, int p1, int f2, int t2, int p2) { return f1 == f2 && t1 == t2 && p1 == p2; }

// param bit 0: 1 = polyglot file (weight = stored 16-bit weight), 0 = built-in book (weight = f(count) >= 1)
static void guard(bool pg) {
    Position& pos = rawPos(); Book& book = rawBook();
    setBookFile(pg);
    nCand = (int)verif_param(); nLegal = nondet_int();             // case split: number of book entries found for the position
    ASSUME(nCand >= 0 && nCand <= NCAND && nLegal >= 0 && nLegal <= NLEGAL);
    for (int i = 0; i < NCAND; i++) {
        candF[i] = nondet_int(); candT[i] = nondet_int(); candP[i] = nondet_int(); candCnt[i] = nondet_int();
        ASSUME(candF[i] >= 0 && candF[i] < 64 && candT[i] >= 0 && candT[i] < 64 && candP[i] >= 0 && candP[i] <= 12);   // anything getMove can produce, and more
        if (pg) ASSUME(candCnt[i] >= 0 && candCnt[i] <= 65535);     // 16-bit weight field
        else    ASSUME(candCnt[i] >= 1 && candCnt[i] <= CMAX);      // built-in book: occurrence counts
    }
    for (int i = 0; i < NCAND; i++) {
        wOf[i] = nondet_int(); ASSUME(wOf[i] >= 1 && wOf[i] <= WMAX);
        for (int j = 0; j < NCAND; j++) if (j < i && candCnt[j] == candCnt[i]) ASSUME(wOf[j] == wOf[i]);   // a function of the count
    }
    for (int i = 0; i < NLEGAL; i++) {
        legF[i] = nondet_int(); legT[i] = nondet_int(); legP[i] = nondet_int();
        ASSUME(legF[i] >= 0 && legF[i] < 64 && legT[i] >= 0 && legT[i] < 64 && legF[i] != legT[i] && legP[i] >= 0 && legP[i] <= 12);   // a legal move never has from == to
    }
    // ---- oracle, computed before the call
    int w[NCAND]; long long sum = 0; bool allLegal = true;
    for (int i = 0; i < NCAND; i++) if (i < nCand) {
        w[i] = pg ? candCnt[i] : wOf[i];
        sum += w[i];
        bool found = false;
        for (int j = 0; j < NLEGAL; j++) if (j < nLegal && sameMove(candF[i], candT[i], candP[i], legF[j], legT[j], legP[j])) found = true;
        if (!found) allLegal = false;
    }
    bool expectMove = nCand > 0 && allLegal && sum > 0;
    // RNG value: arbitrary in [0,sum); or (existential part) the value that must select candidate `pick`
    int pick = nondet_int(); bool usePick = nondet_bool();
    ASSUME(pick >= 0 && pick < NCAND);
    rngRet = nondet_int();
    if (expectMove) {
        ASSUME(rngRet >= 0 && rngRet < sum);
        if (usePick) { ASSUME(pick < nCand && w[pick] > 0); long long pre = 0; for (int i = 0; i < NCAND; i++) if (i < pick) pre += w[i]; rngRet = (int)pre; }
    }
    rngCalls = 0; rngArg = -1; entriesCalls = 0; genCalls = 0;
    Move out(Square(5), Square(6), 7, 8);                                   // garbage that must be overwritten
    book.getBookMove(pos, out);                                             // real
    int of = out.from().asInt(), ot = out.to().asInt(), op = out.promoteTo();
    verif_observe(of); verif_observe(ot); verif_observe(op); verif_observe(rngCalls);
    bool none = of == 0 && ot == 0 && op == 0;
    bool inLegal = false;
    for (int j = 0; j < NLEGAL; j++) if (j < nLegal && sameMove(of, ot, op, legF[j], legT[j], legP[j])) inLegal = true;
    CHECK(none || inLegal, "result is the empty move or a member of the legal-move list");
    CHECK(entriesCalls == 1, "book consulted once");
    if (!expectMove) {
        CHECK(none, "no candidates, or a candidate that is not legal (hash collision / corrupt entry), or weight sum <= 0 => no book move");
        CHECK(rngCalls == 0, "RNG not consulted when there is nothing to choose");
    } else {
        CHECK(rngCalls == 1 && rngArg == sum, "one RNG draw over the weight sum");
        bool isCand = false, isPosCand = false;
        for (int i = 0; i < NCAND; i++) if (i < nCand && sameMove(of, ot, op, candF[i], candT[i], candP[i])) { isCand = true; if (w[i] > 0) isPosCand = true; }
        CHECK(!none && isCand, "a candidate is returned");
        CHECK(isPosCand, "the returned move is stored with positive weight (zero-weight entries are never played)");
        CHECK(out.score() == 0, "score of the returned move is the book entry's (0)");
        if (usePick) CHECK(sameMove(of, ot, op, candF[pick], candT[pick], candP[pick]), "every candidate with positive weight is returned for some RNG value (rnd = weight sum of its predecessors)");
    }
    END();
}

extern "C" {
void h_guard_pg(void) { guard(true); }
void h_guard_builtin(void) { guard(false); }

// lemma for the getWeight substitution of h_guard_builtin: the real function, built-in branch
void h_weight(void) {
    int c = nondet_int(), c2 = nondet_int();
    ASSUME(c >= 1 && c <= CMAX && c2 >= 1 && c2 <= CMAX);
    int w = rawBook().getWeight(c, false);                                  // real (sqrt from libm)
    verif_observe(w);
    CHECK(sqrtArgOk, "sqrt is only applied to finite non-negative numbers");
    CHECK(w >= 1 && w <= WMAX, "built-in weight of an occurrence count is in [1, WMAX]");
    CHECK(rawBook().getWeight(c, true) == c, "polyglot weight is the stored weight");
    END();
}
} // extern "C"

// =====================================================================================================
// O4: getBookEntries, polyglot branch, over an arbitrary "file" (fstream calls are the stubbed environment)
// =====================================================================================================
#ifndef MAXMATCH
#define MAXMATCH 3
#endif
#ifndef NENT
#define NENT 6
#endif
static long long fileLen;              // what tellg reports after seeking to the end (-1: missing/unreadable file)
static long long curOff; static int nReads; static bool offOk, lastFail;
static U64 wantedKey;
static std::vector<Book::BookEntry>* outVec;
static unsigned logMove[MAXMATCH + NENT + 1], logWeight[MAXMATCH + NENT + 1];   // fields of the last matching read made while the result had i entries
static int fileMode;                   // 0: every read returns arbitrary bytes / may fail; 1: consistent file fKey/fMove/fWeight[0..N)
static bool walkUp;                    // 2: like 0, but every search probe compares the same way (walk to the top or to the bottom)
static U64 fKey[NENT]; static unsigned fMove[NENT], fWeight[NENT];
static long fakeVt[4];                 // stand-in vtable: virtual-base offset 0 at [-3] (basic_ios::operator! is reached through it)

extern "C" void model_fs_ctor(std::fstream* fs, const char* name, std::ios_base::openmode m) { fakeVt[0] = 0; *reinterpret_cast<long**>(fs) = &fakeVt[3]; }
extern "C" void model_fs_dtor(std::fstream* fs) { }
extern "C" std::istream* model_seekg(std::istream* is, long off, std::ios_base::seekdir dir) {
    if (dir != std::ios_base::end) curOff = off;                  // (seek to end = the size probe)
    return is;
}
extern "C" std::streampos model_tellg(std::istream* is) { return std::streampos(fileLen); }
// Ghost interval (lo, hi) of the search, kept by the read stub from the outcomes it hands out.  Each probe must lie strictly
// inside the open interval and at least halve it; each such fact is asserted first and only then assumed (lemma chaining:
// it spares the SAT solver from rediscovering the halving argument across 28 unrolled iterations).
static int gLo, gHi, gN, gIt, gLg;
extern "C" std::istream* model_read(std::istream* is, char* buf, long n) {
    nReads++;
    bool inside = n == 16 && curOff >= 0 && (curOff & 15) == 0 && (curOff >> 4) < gN;   // a whole entry inside the file
    if (!inside) offOk = false;
    int ent = inside ? (int)(curOff >> 4) : 0;
    bool searching = gHi - gLo > 1;
    int have = (int)outVec->size();
    if (searching) {
        int w = gHi - gLo;
        bool ok = inside && gLo < ent && ent < gHi && ent - gLo <= ((w + 1) >> 1) && gHi - ent <= ((w + 1) >> 1);
        CHECK(ok, "search probe lies strictly inside the open interval (lo,hi) and at least halves it"); ASSUME(ok);
    } else {
        bool ok = inside && ent == gHi + have;
        CHECK(ok, "after the search the entries are read one by one starting at hi"); ASSUME(ok);
    }
    U64 k; unsigned mv, wt;
    if (fileMode == 0 || fileMode == 2) {
        lastFail = nondet_bool();                                  // a read may fail at any time (the caller then zero-fills)
        k = nondet_u64(); mv = nondet_u16(); wt = nondet_u16();
        if (fileMode == 2 && searching) { lastFail = false; k = walkUp ? 0 : ~0ULL; }   // monotone walk to the top / bottom of the file
    } else {
        lastFail = !inside;
        int e = ent;
        k = fKey[e]; mv = fMove[e]; wt = fWeight[e];
    }
    for (int i = 0; i < 8; i++) buf[i] = (char)(k >> (56 - 8 * i));
    buf[8] = (char)(mv >> 8); buf[9] = (char)mv; buf[10] = (char)(wt >> 8); buf[11] = (char)wt;
    for (int i = 12; i < 16; i++) buf[i] = (char)nondet_u8();      // learn field: anything
    if (lastFail) { k = 0; mv = 0; wt = 0; }                       // what the caller sees after its zero fill
    if (searching) {
        if (k < wantedKey) gLo = ent; else gHi = ent;
        gIt++;
        // numEntries <= 2^gLg: after i probes the interval is no wider than 2^(gLg-i) + 1, and closed (width 1) after gLg+1 probes.
        // (nReads is the probe number; it is a constant in every unrolled iteration, so the bound below is a constant.)
        int sh = gLg - nReads; if (sh < 0) sh = 0; if (sh > 30) sh = 30;
        int bound = nReads <= gLg ? (1 << sh) + 1 : 1;
        bool wb = gIt == nReads && gHi - gLo <= bound;
        CHECK(wb, "after i probes the interval is no wider than 2^(lg-i) + 1 (numEntries <= 2^lg)"); ASSUME(wb);
    } else {
        if (fileMode != 1 && have >= MAXMATCH) ASSUME(k != wantedKey); // bound: at most MAXMATCH consecutive matching entries are collected
        if (k == wantedKey) { logMove[have] = mv; logWeight[have] = wt; }
    }
    return is;
}
extern "C" bool model_ios_not(const std::ios* s) { return lastFail; }
extern "C" U64 model_getHashKey(const Position& pos) { return wantedKey; }

static void probePos(Position& pos) {   // what getMove looks at: side to move and the men on e1/e8
    for (int i = 0; i < 64; i++) pos.squares.tbl[i] = Piece::EMPTY;
    int a = nondet_u8(), b = nondet_u8(); ASSUME(a <= 12 && b <= 12);
    pos.squares.tbl[4] = a; pos.squares.tbl[60] = b; pos.whiteMove = nondet_bool();
}
static void startSearch() {
    nReads = 0; offOk = true; curOff = -1;
    gN = fileLen >= 16 ? (int)(fileLen >> 4) : 0; gLo = -1; gHi = gN; gIt = 0;
}
static void checkLogged(Position& pos, std::vector<Book::BookEntry>& out) {
    for (int i = 0; i < MAXMATCH + NENT; i++) if (i < (int)out.size()) {
        Move m = PolyglotBook::getMove(pos, (U16)logMove[i]);      // decoding is O1's subject
        CHECK(out[i].move == m && out[i].count == (int)logWeight[i], "every returned entry is (decoded move, weight) of an entry read with the position's key");
    }
}

extern "C" {
// any file length up to LIMIT bytes, any bytes, any read failures
void h_search_any(void) {
    Position& pos = rawPos(); probePos(pos);
    setBookFile(true); fileMode = 0;
    fileLen = (long long)nondet_u64(); wantedKey = nondet_u64();
    unsigned lg = verif_param();                                            // numEntries <= 2^lg (27 = up to the last file size without int overflow)
    long long limit = (16LL << lg) + 15; gLg = (int)lg;
    ASSUME(fileLen >= -1 && fileLen <= limit);
    startSearch();
    std::vector<Book::BookEntry> out; outVec = &out;
    rawBook().getBookEntries(pos, out);                                    // real
    verif_observe(nReads); verif_observe(out.size());
    CHECK(offOk, "every entry read lies inside [0, numEntries)");
    CHECK((int)out.size() <= MAXMATCH, "(bound) at most MAXMATCH entries collected");
    int numEntries = gN;
    int scanReads = (int)out.size() + 1;                                    // matching reads + at most one terminating read
    CHECK(gHi - gLo <= 1 && gIt <= (int)lg + 1 && nReads <= gIt + scanReads, "binary search ends after at most lg+1 probes (28 for numEntries <= 2^27), then at most one read per collected entry plus one");
    if (numEntries <= 0) CHECK(nReads == 0 && out.empty(), "empty/missing/short file: no read, no move");
    checkLogged(pos, out);
    END();
}
// the largest files: numEntries in [2^27-64, 2^27] (file sizes 2^31-1024 .. 2^31+15 bytes, the last sizes for which entNo*16 fits an int);
// every search probe answers the same way, so the search walks to the last (or first) entry: the path with the largest
// entry numbers and offsets.  (All 2^28 outcome sequences at this size are beyond the SAT back end, see O4a bounds.)
void h_search_walk(void) {
    Position& pos = rawPos(); probePos(pos);
    setBookFile(true); fileMode = 2; walkUp = nondet_bool();
    fileLen = (long long)nondet_u64(); wantedKey = nondet_u64();
    ASSUME(wantedKey != 0);
    if (verif_param() == 0) { gLg = 27; ASSUME(fileLen >= (1LL << 31) - 1024 && fileLen <= (1LL << 31) + 15); }   // up to 2^27 entries
    else { gLg = 30; ASSUME(fileLen >= (1LL << 31) + 16 && fileLen <= (1LL << 34) + 15); }                          // 2 GiB .. 16 GiB books: up to 2^30 entries
    startSearch();
    std::vector<Book::BookEntry> out; outVec = &out;
    rawBook().getBookEntries(pos, out);                                    // real
    verif_observe(nReads); verif_observe(out.size());
    CHECK(offOk, "every entry read lies inside [0, numEntries)");
    CHECK(gHi - gLo <= 1 && gIt <= gLg + 1, "search ends after at most lg(numEntries)+1 probes");
    if (gN > 0) CHECK(walkUp ? gHi == gN : gHi == 0, "walk ends at the top / bottom of the file");
    checkLogged(pos, out);
    END();
}
// well-formed book: N <= NENT entries sorted by key, consistent reads: exactly the entries stored under the key, in file order
void h_search_sorted(void) {
    Position& pos = rawPos(); probePos(pos);
    setBookFile(true); fileMode = 1;
    int n = nondet_int(), extra = nondet_int(); ASSUME(n >= 0 && n <= NENT && extra >= 0 && extra <= 15);
    fileLen = 16LL * n + extra;                                             // a trailing partial entry is ignored
    gLg = 3;                                                                // NENT <= 8
    wantedKey = nondet_u64();
    for (int i = 0; i < NENT; i++) { fKey[i] = nondet_u64(); fMove[i] = nondet_u16(); fWeight[i] = nondet_u16(); if (i > 0 && i < n) ASSUME(fKey[i - 1] <= fKey[i]); }
    startSearch();
    std::vector<Book::BookEntry> out; outVec = &out;
    rawBook().getBookEntries(pos, out);                                    // real
    verif_observe(nReads); verif_observe(out.size());
    CHECK(offOk, "every entry read lies inside [0, numEntries)");
    int cnt = 0;
    for (int i = 0; i < NENT; i++) if (i < n && fKey[i] == wantedKey) {
        CHECK(cnt < (int)out.size(), "every entry stored under the key is returned");
        if (cnt < (int)out.size()) {
            Move m = PolyglotBook::getMove(pos, (U16)fMove[i]);
            CHECK(out[cnt].move == m && out[cnt].count == (int)fWeight[i], "returned entries are the stored ones, in file order");
        }
        cnt++;
    }
    CHECK(cnt == (int)out.size(), "nothing but the entries stored under the key is returned");
    END();
}
} // extern "C"
