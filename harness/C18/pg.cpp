// C18 - opening book, polyglot half: move decoding/encoding, entry (de)serialisation, polyglot hash key.
// Real code under test: lib/texellib/book/polyglot.cpp (getMove, getPGMove, serialize, deSerialize, getHashKey).
#include "polyglot.cpp"
#include "verif.h"

// A Position object built in place: only the fields the polyglot code reads are given values
// (squares[], whiteMove, castleMask, epSquare); no constructor, no setPiece().
// (typed storage inside a union: no constructor runs, and the solver sees struct fields instead of a byte array)
union PosStore { Position p; PosStore() {} ~PosStore() {} };
static PosStore posStore;
static Position& rawPos() { return posStore.p; }
static void putSq(Position& pos, int sq, int p) { pos.squares.tbl[sq] = p; }

// ---- naive restatements of the polyglot book format (http://hgm.nubati.net/book_format.html) ----
// "kind_of_piece": bp=0 wp=1 bn=2 wn=3 bb=4 wb=5 br=6 wr=7 bq=8 wq=9 bk=10 wk=11, from texel's piece code
// (WKING=1 WQUEEN=2 WROOK=3 WBISHOP=4 WKNIGHT=5 WPAWN=6, black = white + 6).
static int specKind(int p) {
    bool white = p <= 6;
    int t = white ? p : p - 6;          // 1=K 2=Q 3=R 4=B 5=N 6=P
    return 2 * (6 - t) + (white ? 1 : 0);
}
static bool isMoverPiece(int p, bool wtm) { return wtm ? (p >= 1 && p <= 6) : (p >= 7 && p <= 12); }

static void symBoard(Position& pos, int* b) {
    for (int i = 0; i < 64; i++) {
        int p = nondet_u8(); ASSUME(p <= 12);
        b[i] = p; putSq(pos, i, p);
    }
}

extern "C" {

// ---- O1a: getMove for all 2^16 codes x any board x side to move
void h_decode(void) {
    Position& pos = rawPos();
    int b[64]; symBoard(pos, b);
    bool wtm = nondet_bool(); pos.whiteMove = wtm;
    unsigned code = nondet_u16();
    Move m = PolyglotBook::getMove(pos, (U16)code);          // real
    int f = m.from().asInt(), t = m.to().asInt(), pr = m.promoteTo();
    verif_observe(f); verif_observe(t); verif_observe(pr);
    CHECK(f >= 0 && f < 64 && t >= 0 && t < 64, "decoded squares in range");
    // format: bits 0-2 to file, 3-5 to row, 6-8 from file, 9-11 from row, 12-14 promotion piece
    int to0 = code % 64, from0 = (code / 64) % 64, prom = (code / 4096) % 8;
    CHECK(f == from0, "from square = bits 6..11");
    int wantTo = to0;
    bool rewritten = false;
    if (from0 == 4 && b[4] == Piece::WKING) {           // white king on e1
        if (to0 == 7) { wantTo = 6; rewritten = true; }  // e1h1 -> e1g1
        if (to0 == 0) { wantTo = 2; rewritten = true; }  // e1a1 -> e1c1
    }
    if (from0 == 60 && b[60] == Piece::BKING) {         // black king on e8
        if (to0 == 63) { wantTo = 62; rewritten = true; }
        if (to0 == 56) { wantTo = 58; rewritten = true; }
    }
    CHECK(t == wantTo, "to square = bits 0..5, king-takes-rook rewritten exactly when the king stands on e1/e8");
    CHECK((t != to0) == rewritten, "no other rewriting of the target square");
    int wantPr = Piece::EMPTY;
    if (prom == 1) wantPr = wtm ? Piece::WKNIGHT : Piece::BKNIGHT;
    if (prom == 2) wantPr = wtm ? Piece::WBISHOP : Piece::BBISHOP;
    if (prom == 3) wantPr = wtm ? Piece::WROOK : Piece::BROOK;
    if (prom == 4) wantPr = wtm ? Piece::WQUEEN : Piece::BQUEEN;
    CHECK(pr == wantPr, "promotion piece: 1..4 = N,B,R,Q of the side to move, everything else none");
    CHECK(pr == Piece::EMPTY || (isMoverPiece(pr, wtm) && pr != Piece::WKING && pr != Piece::BKING && pr != Piece::WPAWN && pr != Piece::BPAWN),
          "promotion piece is empty or a N/B/R/Q of the mover's colour");
    CHECK(m.score() == 0, "score 0");
    END();
}

// ---- O1b: getMove(getPGMove(m)) == m for every move of legal shape
void h_roundtrip(void) {
    Position& pos = rawPos();
    int b[64]; symBoard(pos, b);
    bool wtm = nondet_bool(); pos.whiteMove = wtm;
    int f = nondet_int(), t = nondet_int(), pr = nondet_int();
    ASSUME(f >= 0 && f < 64 && t >= 0 && t < 64 && f != t);
    int p = b[f];
    ASSUME(isMoverPiece(p, wtm));                                   // the mover's own man stands on the from square
    int N = wtm ? Piece::WKNIGHT : Piece::BKNIGHT, B = wtm ? Piece::WBISHOP : Piece::BBISHOP;
    int R = wtm ? Piece::WROOK : Piece::BROOK, Q = wtm ? Piece::WQUEEN : Piece::BQUEEN;
    ASSUME(pr == Piece::EMPTY || pr == N || pr == B || pr == R || pr == Q);
    if (pr != Piece::EMPTY) ASSUME(p == (wtm ? Piece::WPAWN : Piece::BPAWN));
    bool king = p == Piece::WKING || p == Piece::BKING;
    int dx = t % 8 - f % 8, dy = t / 8 - f / 8;
    bool step = dx >= -1 && dx <= 1 && dy >= -1 && dy <= 1;
    bool castle = (p == Piece::WKING && f == 4 && (t == 6 || t == 2)) || (p == Piece::BKING && f == 60 && (t == 62 || t == 58));
    if (king) ASSUME(step || castle);                               // king geometry: one step or e1g1/e1c1/e8g8/e8c8
    Move m(Square(f), Square(t), pr);
    unsigned code = PolyglotBook::getPGMove(pos, m);               // real
    verif_observe(code);
    CHECK(code < 32768, "bit 15 clear");
    int wantTo = t;
    if (castle) wantTo = (t % 8 == 6) ? t + 1 : t - 2;              // castling is stored as king takes own rook
    int wantProm = pr == N ? 1 : pr == B ? 2 : pr == R ? 3 : pr == Q ? 4 : 0;
    CHECK(code == (unsigned)(wantTo + 64 * f + 4096 * wantProm), "encoding: to | from<<6 | prom<<12, castling as king-takes-rook");
    Move m2 = PolyglotBook::getMove(pos, (U16)code);                // real
    CHECK(m2 == m && m2.from().asInt() == f && m2.to().asInt() == t && m2.promoteTo() == pr, "getMove(getPGMove(m)) == m");
    END();
}

// ---- O1c: 16-byte entry layout (big endian key, move, weight, learn = 0) and round trip
void h_serialize(void) {
    U64 key = nondet_u64(); unsigned mv = nondet_u16(), w = nondet_u16();
    PolyglotBook::PGEntry e;
    for (int i = 0; i < 16; i++) e.data[i] = nondet_u8();
    PolyglotBook::PGEntry raw = e;
    U64 k0; U16 m0, w0;
    PolyglotBook::deSerialize(raw, k0, m0, w0);                     // real, arbitrary bytes
    U64 kk = 0; for (int i = 0; i < 8; i++) kk = kk * 256 + raw.data[i];
    CHECK(k0 == kk && m0 == raw.data[8] * 256 + raw.data[9] && w0 == raw.data[10] * 256 + raw.data[11], "deSerialize reads big-endian key/move/weight from any 16 bytes");
    PolyglotBook::serialize(key, (U16)mv, (U16)w, e);               // real
    for (int i = 0; i < 8; i++) CHECK(e.data[i] == (U8)(key >> (56 - 8 * i)), "key bytes big endian");
    CHECK(e.data[8] == mv / 256 && e.data[9] == mv % 256 && e.data[10] == w / 256 && e.data[11] == w % 256, "move/weight bytes big endian");
    CHECK(e.data[12] == 0 && e.data[13] == 0 && e.data[14] == 0 && e.data[15] == 0, "learn field zero");
    U64 k1; U16 m1, w1;
    PolyglotBook::deSerialize(e, k1, m1, w1);                       // real
    verif_observe(k1); verif_observe(m1); verif_observe(w1);
    CHECK(k1 == key && m1 == mv && w1 == w, "deSerialize(serialize(x)) == x");
    END();
}

// ---- O2: getHashKey == reference sum
static U64 specFlags(int castleMask, int ep, bool wtm) {
    const U64* R = PolyglotBook::hashRandoms;
    U64 k = 0;
    if (castleMask & (1 << Position::H1_CASTLE)) k ^= R[768];                  // white short
    if (castleMask & (1 << Position::A1_CASTLE)) k ^= R[769];                  // white long
    if (castleMask & (1 << Position::H8_CASTLE)) k ^= R[770];                  // black short
    if (castleMask & (1 << Position::A8_CASTLE)) k ^= R[771];                  // black long
    if (ep >= 0) k ^= R[772 + ep % 8];                                         // file of the ep square, when the position has one
    if (wtm) k ^= R[780];
    return k;
}
// ---- O2a: direct comparison with the reference sum.  verif_param() is a mask of ranks: squares on the selected ranks
//      hold arbitrary contents (any number of men), all other squares are empty.  Mask 0xFF = every board.
//      The 64 key bits are independent parity problems; they are compared in four 16-bit slices (bits 8..9 of the parameter).
static U64 specMan(int p, int sq) {                                  // Random64[64*kind + 8*row + file]
    const U64* R = PolyglotBook::hashRandoms;
    int kind = specKind(p);
    U64 r = 0;
    for (int k = 0; k < 12; k++) if (kind == k) r = R[64 * k + sq];
    return r;
}
void h_key_direct(void) {
    Position& pos = rawPos();
    unsigned mask = verif_param() & 255, slice = (verif_param() >> 8) & 3;   // slice: which 16 of the 64 key bits this query compares
    U64 ref = 0;
    for (int sq = 0; sq < 64; sq++) {
        int p = Piece::EMPTY;
        if ((mask >> (sq / 8)) & 1) { p = nondet_u8(); ASSUME(p <= 12); }
        putSq(pos, sq, p);
        if (p != Piece::EMPTY) ref ^= specMan(p, sq);
    }
    bool wtm = nondet_bool(); pos.whiteMove = wtm;
    int cm = nondet_int(), ep = nondet_int();
    ASSUME(cm >= 0 && cm <= 15 && ep >= -1 && ep < 64);
    pos.castleMask = cm; pos.epSquare = Square(ep);
    ref ^= specFlags(cm, ep, wtm);
    U64 k = PolyglotBook::getHashKey(pos);                          // real
    verif_observe(k);
    CHECK((((k ^ ref) >> (16 * slice)) & 0xFFFF) == 0, "polyglot key = xor over all men of Random64[64*kind+square], xor castle/ep-file/turn randoms");
    END();
}

// ---- O2b: the published test keys of the format description (anchors the content of hashRandoms)
static void setup(Position& pos, const char* rows, bool wtm, int cm, int ep) {   // rows: rank 8 first, 64 chars
    for (int i = 0; i < 64; i++) {
        char c = rows[i]; int p = 0;
        switch (c) { case 'K': p = 1; break; case 'Q': p = 2; break; case 'R': p = 3; break; case 'B': p = 4; break; case 'N': p = 5; break; case 'P': p = 6; break;
                     case 'k': p = 7; break; case 'q': p = 8; break; case 'r': p = 9; break; case 'b': p = 10; break; case 'n': p = 11; break; case 'p': p = 12; break; }
        putSq(pos, (7 - i / 8) * 8 + i % 8, p);
    }
    pos.whiteMove = wtm; pos.castleMask = cm; pos.epSquare = Square(ep);
}
void h_key_vectors(void) {
    Position& pos = rawPos();
    const U64* R = PolyglotBook::hashRandoms;
    CHECK(R[0] == 0x9D39247E33776D41ULL && R[780] == 0xF8D626AAAF278509ULL, "first and last Random64 constants");
    setup(pos, "........" "........" "........" "........" "........" "........" "........" "........", false, 0, -1);
    CHECK(PolyglotBook::getHashKey(pos) == 0, "empty board, no flags, black to move: key 0 (induction base)");
    setup(pos, "rnbqkbnr" "pppppppp" "........" "........" "........" "........" "PPPPPPPP" "RNBQKBNR", true, 15, -1);
    U64 k = PolyglotBook::getHashKey(pos); verif_observe(k);
    CHECK(k == 0x463b96181691fc9cULL, "starting position");
    setup(pos, "rnbqkbnr" "pppppppp" "........" "........" "....P..." "........" "PPPP.PPP" "RNBQKBNR", false, 15, -1);
    k = PolyglotBook::getHashKey(pos); verif_observe(k);
    CHECK(k == 0x823c9b50fd114196ULL, "after e2e4 (no black pawn can capture: no ep square in texel, no ep file in the key)");
    setup(pos, "rnbqkbnr" "ppp.pppp" "........" "...p...." "....P..." "........" "PPPP.PPP" "RNBQKBNR", true, 15, -1);
    k = PolyglotBook::getHashKey(pos); verif_observe(k);
    CHECK(k == 0x0756b94461c50fb0ULL, "after e2e4 d7d5");
    setup(pos, "rnbqkbnr" "ppp.p.pp" "........" "...pPp.." "........" "........" "PPPP.PPP" "RNBQKBNR", true, 15, 45);
    k = PolyglotBook::getHashKey(pos); verif_observe(k);
    CHECK(k == 0x22a48b5a8e47ff78ULL, "after e2e4 d7d5 e4e5 f7f5 (ep f6)");
    setup(pos, "rnbq.bnr" "ppp.pkpp" "........" "...pPp.." "........" "........" "PPPPKPPP" "RNBQ.BNR", true, 0, -1);
    k = PolyglotBook::getHashKey(pos); verif_observe(k);
    CHECK(k == 0x00fdd303c946bdd9ULL, "after e2e4 d7d5 e4e5 f7f5 e1e2 e8f7 (no castling rights)");
    setup(pos, "rnbqkbnr" "p.pppppp" "........" "........" "PpP....P" "........" ".P.PPPP." "RNBQKBNR", false, 15, 18);
    k = PolyglotBook::getHashKey(pos); verif_observe(k);
    CHECK(k == 0x3c8123ea7b067637ULL, "after a2a4 b7b5 h2h4 b5b4 c2c4 (ep c3)");
    setup(pos, "rnbqkbnr" "p.pppppp" "........" "........" "P......P" "R.p....." ".P.PPPP." ".NBQKBNR", false, 14, -1);
    k = PolyglotBook::getHashKey(pos); verif_observe(k);
    CHECK(k == 0x5c3f9b829b279560ULL, "after ... b4c3 a1a3 (white long castling right gone)");
    END();
}

} // extern "C"
