// Independent "list of men" oracle of the rules of chess + symbolic K-man position builder (shared by the C01/C15 harnesses).
// No bitboards, no tables: geometry is plain coordinate arithmetic.
#ifndef C01_ORACLE_H
#define C01_ORACLE_H
#ifndef NMEN
#define NMEN 3

#endif

// ------------------------------------------------------------------ oracle: rules of chess over a list of men
struct Man { int p, s; };                      // p == 0: absent
struct Brd { Man men[NMEN]; bool wtm; int castle, ep; };

static inline bool isW(int p) { return p >= 1 && p <= 6; }
static inline bool isB(int p) { return p >= 7 && p <= 12; }
static inline int  kindOf(int p) { return p == 0 ? 0 : (p > 6 ? p - 6 : p); }   // 1 K, 2 Q, 3 R, 4 B, 5 N, 6 P
static inline int  iabs(int v) { return v < 0 ? -v : v; }

static int pieceAt(const Brd& b, int sq) { int r = 0; for (int k = 0; k < NMEN; k++) if (b.men[k].p != 0 && b.men[k].s == sq) r = b.men[k].p; return r; }
// c strictly between a and b, where a and b lie on a common rank, file or diagonal
static bool strictlyBetween(int a, int b, int c) {
    int ax = a & 7, ay = a >> 3, bx = b & 7, by = b >> 3, cx = c & 7, cy = c >> 3;
    int dx = bx - ax, dy = by - ay, n = iabs(dx) > iabs(dy) ? iabs(dx) : iabs(dy);
    int sx = dx > 0 ? 1 : dx < 0 ? -1 : 0, sy = dy > 0 ? 1 : dy < 0 ? -1 : 0;
    int ex = cx - ax, ey = cy - ay, t = iabs(ex) > iabs(ey) ? iabs(ex) : iabs(ey);
    if (t < 1 || t >= n) return false;
    return ex == (sx == 0 ? 0 : sx > 0 ? t : -t) && ey == (sy == 0 ? 0 : sy > 0 ? t : -t);
}
static bool onLine(int a, int b, bool diag, bool ortho) {
    int dx = (b & 7) - (a & 7), dy = (b >> 3) - (a >> 3);
    if (a == b) return false;
    return (ortho && (dx == 0 || dy == 0)) || (diag && iabs(dx) == iabs(dy));
}
// Line of sight.  Default: through the 7-step ray fill of models.h, whose equality with the engine's magic-table look-up AND
// with a naive ray walk is proved for every square and occupancy by C01-O1 (h_rook/h_bishop).  The rules logic (who may
// move where, what is check, what is legal) stays an independent restatement; only this geometric primitive is shared with
// the code under test, which turns an otherwise very hard equivalence query into an easy one.  -DORACLE_GEOMETRIC selects the
// fully independent coordinate-arithmetic version.
static U64 occOf(const Brd& b) { U64 o = 0; for (int k = 0; k < NMEN; k++) if (b.men[k].p != 0) o |= 1ULL << b.men[k].s; return o; }
#ifdef ORACLE_GEOMETRIC
static bool pathClear(const Brd& b, int from, int to) {
    bool ok = true;
    for (int k = 0; k < NMEN; k++) if (b.men[k].p != 0 && strictlyBetween(from, to, b.men[k].s)) ok = false;
    return ok;
}
#else
static bool pathClear(const Brd& b, int from, int to) {
    U64 occ = occOf(b);
    U64 a = onLine(from, to, false, true) ? model_rookAttacks(Square(from), occ) : model_bishopAttacks(Square(from), occ);
    return ((a >> to) & 1) != 0;
}
#endif
// does the man (p on s) attack square t on board b?
static bool manAttacks(const Brd& b, int p, int s, int t) {
    int dx = (t & 7) - (s & 7), dy = (t >> 3) - (s >> 3), adx = iabs(dx), ady = iabs(dy);
    switch (kindOf(p)) {
    case 1: return (adx | ady) != 0 && adx <= 1 && ady <= 1;
    case 2: return onLine(s, t, true, true) && pathClear(b, s, t);
    case 3: return onLine(s, t, false, true) && pathClear(b, s, t);
    case 4: return onLine(s, t, true, false) && pathClear(b, s, t);
    case 5: return (adx == 1 && ady == 2) || (adx == 2 && ady == 1);
    case 6: return adx == 1 && dy == (isW(p) ? 1 : -1);
    }
    return false;
}
static bool attacked(const Brd& b, int t, bool byWhite) {
    bool r = false;
    for (int k = 0; k < NMEN; k++) { int p = b.men[k].p; if (p != 0 && isW(p) == byWhite && manAttacks(b, p, b.men[k].s, t)) r = true; }
    return r;
}
static int kingSq(const Brd& b, bool white) { int r = -1; for (int k = 0; k < NMEN; k++) if (b.men[k].p == (white ? Piece::WKING : Piece::BKING)) r = b.men[k].s; return r; }

// Pseudo-legal as the generators define it: piece geometry, pawn rules, castling incl. "not in check / not through check".
static bool pseudoLegal(const Brd& b, int from, int to, int prom, bool& epCap, bool& castleMove) {
    epCap = false; castleMove = false;
    if (from == to) return false;
    int p = pieceAt(b, from), c = pieceAt(b, to);
    bool wtm = b.wtm;
    if (p == 0 || isW(p) != wtm) return false;
    if (c != 0 && isW(c) == wtm) return false;
    if (kindOf(c) == 1) return false;
    int fx = from & 7, fy = from >> 3, tx = to & 7, ty = to >> 3, dx = tx - fx, dy = ty - fy, adx = iabs(dx), ady = iabs(dy);
    if (kindOf(p) != 6 && prom != 0) return false;
    switch (kindOf(p)) {
    case 1:
        if (adx <= 1 && ady <= 1) return true;
        {   int k0 = wtm ? 4 : 60; int rook = wtm ? Piece::WROOK : Piece::BROOK;
            if (from != k0 || dy != 0 || adx != 2) return false;
            if (dx == 2) { if (!(b.castle & (wtm ? 2 : 8)) || pieceAt(b, k0 + 1) || pieceAt(b, k0 + 2) || pieceAt(b, k0 + 3) != rook) return false;
                           if (attacked(b, k0, !wtm) || attacked(b, k0 + 1, !wtm)) return false; }
            else         { if (!(b.castle & (wtm ? 1 : 4)) || pieceAt(b, k0 - 1) || pieceAt(b, k0 - 2) || pieceAt(b, k0 - 3) || pieceAt(b, k0 - 4) != rook) return false;
                           if (attacked(b, k0, !wtm) || attacked(b, k0 - 1, !wtm)) return false; }
            castleMove = true; return true; }
    case 2: return onLine(from, to, true, true) && pathClear(b, from, to);
    case 3: return onLine(from, to, false, true) && pathClear(b, from, to);
    case 4: return onLine(from, to, true, false) && pathClear(b, from, to);
    case 5: return (adx == 1 && ady == 2) || (adx == 2 && ady == 1);
    case 6: {
        int dir = wtm ? 1 : -1;
        bool last = wtm ? ty == 7 : ty == 0;
        if (last) { if (wtm ? !(prom >= Piece::WQUEEN && prom <= Piece::WKNIGHT) : !(prom >= Piece::BQUEEN && prom <= Piece::BKNIGHT)) return false; }
        else if (prom) return false;
        if (dx == 0) { if (c) return false; if (dy == dir) return true; return dy == 2 * dir && fy == (wtm ? 1 : 6) && !pieceAt(b, from + 8 * dir); }
        if (adx == 1 && dy == dir) { if (c) return true; if (to == b.ep) { epCap = true; return true; } }
        return false; }
    }
    return false;
}
// play the move on a copy
static void play(const Brd& b, int from, int to, int prom, bool epCap, bool castleMove, Brd& n) {
    n = b;
    int p = pieceAt(b, from);
    int capSq = epCap ? (b.wtm ? to - 8 : to + 8) : to;
    for (int k = 0; k < NMEN; k++) if (n.men[k].p != 0 && n.men[k].s == capSq) n.men[k].p = 0;       // capture
    for (int k = 0; k < NMEN; k++) if (b.men[k].p != 0 && b.men[k].s == from) { n.men[k].s = to; n.men[k].p = prom ? prom : p; }
    if (castleMove) { int rf = to > from ? from + 3 : from - 4, rt = to > from ? from + 1 : from - 1;
        for (int k = 0; k < NMEN; k++) if (b.men[k].p != 0 && b.men[k].s == rf) n.men[k].s = rt; }
    n.wtm = !b.wtm;
}
static bool legalMove(const Brd& b, int from, int to, int prom, bool& givesChk) {
    bool epCap, castleMove; givesChk = false;
    if (!pseudoLegal(b, from, to, prom, epCap, castleMove)) return false;
    Brd n; play(b, from, to, prom, epCap, castleMove, n);
    if (attacked(n, kingSq(n, b.wtm), !b.wtm)) return false;
    givesChk = attacked(n, kingSq(n, !b.wtm), b.wtm);
    return true;
}

// ------------------------------------------------------------------ symbolic position accepted by the engine
static RawBox<Position> posBox;
static Position& buildPos(const Brd& b) {
    Position& pos = posBox.obj;
    PositionBase& s = (PositionBase&)pos;
    for (int q = 0; q < 13; q++) s.pieceTypeBB_[q] = 0;
    s.whiteBB_ = s.blackBB_ = 0;
    for (int i = 0; i < 64; i++) s.squares[Square(i)] = pieceAt(b, i);
    for (int k = 0; k < NMEN; k++) { int p = b.men[k].p; if (p != 0) { U64 m = 1ULL << b.men[k].s; s.pieceTypeBB_[p] |= m; if (isW(p)) s.whiteBB_ |= m; else s.blackBB_ |= m; } }
    s.whiteMove = b.wtm; s.castleMask = b.castle; s.epSquare = Square(b.ep);
    s.halfMoveClock = 0; s.fullMoveCounter = 1; s.hashKey = 0; s.pHashKey = 0; s.matId.hash = 0;
    s.wMtrl_ = s.bMtrl_ = 100000; s.wMtrlPawns_ = s.bMtrlPawns_ = 100000;
    pos.nnEval = nullptr;
    for (int i = 0; i < 13; i++) ::pieceValue[i] = 100;
    return pos;
}
// param = j + NMEN * (colour + 2 * cls): mover index j (0 = white king, 1 = black king, >= 2 extra man), colour of an
// extra mover, and a class cls that splits the query: kings: 0 = ordinary steps, 1 = castling moves;
// extra men: 0 = any kind, 2..6 = the mover is a queen/rook/bishop/knight/pawn.
static int moveClass;
static void symbolicBoard(Brd& b, int& moverIdx) {
    int par = (int)verif_param();
    moverIdx = par % NMEN;
    bool extraWhite = (par / NMEN) & 1;
    moveClass = par / NMEN / 2;
    b.men[0].p = Piece::WKING; b.men[1].p = Piece::BKING;
    for (int k = 0; k < NMEN; k++) { b.men[k].s = nondet_int(); ASSUME(b.men[k].s >= 0 && b.men[k].s < 64); }
    for (int k = 2; k < NMEN; k++) {
        int p = nondet_int(); ASSUME(p >= 0 && p <= 12 && p != Piece::WKING && p != Piece::BKING);
        ASSUME(!((p == Piece::WPAWN || p == Piece::BPAWN) && (b.men[k].s < 8 || b.men[k].s >= 56)));
        b.men[k].p = p;
    }
    for (int k = 0; k < NMEN; k++) for (int l = k + 1; l < NMEN; l++) ASSUME(b.men[k].p == 0 || b.men[l].p == 0 || b.men[k].s != b.men[l].s);
    b.wtm = moverIdx == 0 ? true : moverIdx == 1 ? false : extraWhite;
    if (moverIdx >= 2) ASSUME(b.men[moverIdx].p != 0 && isW(b.men[moverIdx].p) == extraWhite);
    if (moverIdx >= 2 && moveClass >= 2) ASSUME(kindOf(b.men[moverIdx].p) == moveClass);
#ifdef ALLPRESENT
    for (int k = 2; k < NMEN; k++) ASSUME(b.men[k].p != 0);      // exactly NMEN men (fewer men are covered by the smaller-K unit)

#endif
    b.castle = nondet_int(); b.ep = nondet_int();
    ASSUME(b.castle >= 0 && b.castle <= 15);
    if (b.castle & 1) ASSUME(pieceAt(b, E1) == Piece::WKING && pieceAt(b, A1) == Piece::WROOK);
    if (b.castle & 2) ASSUME(pieceAt(b, E1) == Piece::WKING && pieceAt(b, H1) == Piece::WROOK);
    if (b.castle & 4) ASSUME(pieceAt(b, E8) == Piece::BKING && pieceAt(b, A8) == Piece::BROOK);
    if (b.castle & 8) ASSUME(pieceAt(b, E8) == Piece::BKING && pieceAt(b, H8) == Piece::BROOK);
    if (b.ep != -1) {   // what the FEN reader keeps: right rank, empty, the double-pushed pawn in front of it
        if (b.wtm) { ASSUME(b.ep >= 40 && b.ep <= 47); ASSUME(pieceAt(b, b.ep) == 0 && pieceAt(b, b.ep - 8) == Piece::BPAWN); }
        else       { ASSUME(b.ep >= 16 && b.ep <= 23); ASSUME(pieceAt(b, b.ep) == 0 && pieceAt(b, b.ep + 8) == Piece::WPAWN); }
    }
    ASSUME(!attacked(b, kingSq(b, !b.wtm), b.wtm));      // the side that just moved is not in check (FEN reader rejects otherwise)
}


// K-man position with a given side to move; every extra man of any kind/colour (all present when ALLPRESENT).
static void symbolicBoardAnyMover(Brd& b, bool wtm) {
    b.men[0].p = Piece::WKING; b.men[1].p = Piece::BKING;
    for (int k = 0; k < NMEN; k++) { b.men[k].s = nondet_int(); ASSUME(b.men[k].s >= 0 && b.men[k].s < 64); }
    for (int k = 2; k < NMEN; k++) {
        int p = nondet_int(); ASSUME(p >= 0 && p <= 12 && p != Piece::WKING && p != Piece::BKING);
        ASSUME(!((p == Piece::WPAWN || p == Piece::BPAWN) && (b.men[k].s < 8 || b.men[k].s >= 56)));
#ifdef ALLPRESENT
        ASSUME(p != 0);
#endif
        b.men[k].p = p;
    }
    for (int k = 0; k < NMEN; k++) for (int l = k + 1; l < NMEN; l++) ASSUME(b.men[k].p == 0 || b.men[l].p == 0 || b.men[k].s != b.men[l].s);
    b.wtm = wtm;
    b.castle = nondet_int(); b.ep = nondet_int();
    ASSUME(b.castle >= 0 && b.castle <= 15);
    if (b.castle & 1) ASSUME(pieceAt(b, E1) == Piece::WKING && pieceAt(b, A1) == Piece::WROOK);
    if (b.castle & 2) ASSUME(pieceAt(b, E1) == Piece::WKING && pieceAt(b, H1) == Piece::WROOK);
    if (b.castle & 4) ASSUME(pieceAt(b, E8) == Piece::BKING && pieceAt(b, A8) == Piece::BROOK);
    if (b.castle & 8) ASSUME(pieceAt(b, E8) == Piece::BKING && pieceAt(b, H8) == Piece::BROOK);
    if (b.ep != -1) {
        if (b.wtm) { ASSUME(b.ep >= 40 && b.ep <= 47); ASSUME(pieceAt(b, b.ep) == 0 && pieceAt(b, b.ep - 8) == Piece::BPAWN); }
        else       { ASSUME(b.ep >= 16 && b.ep <= 23); ASSUME(pieceAt(b, b.ep) == 0 && pieceAt(b, b.ep + 8) == Piece::WPAWN); }
    }
    ASSUME(!attacked(b, kingSq(b, !b.wtm), b.wtm));
}

#endif
