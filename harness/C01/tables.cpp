// C01-O1 - geometry tables and bit utilities used by every move generator, against first-principles definitions.
// Real code under test: lib/texellib/bitBoard.{hpp,cpp} (tables filled by BitBoard::staticInitialize, dumped natively
// and then *verified here* for every index / occupancy).
#include "bitBoard.cpp"
#include "verif.h"
#include "models.h"

static U64 refRay(int sq, U64 occ, int dx, int dy) {
    U64 m = 0; int x = sq & 7, y = sq >> 3;
    for (int k = 0; k < 7; k++) {
        x += dx; y += dy;
        if (x < 0 || x > 7 || y < 0 || y > 7) break;
        U64 b = 1ULL << (y * 8 + x);
        m |= b;
        if (occ & b) break;
    }
    return m;
}
static U64 refLeaper(int sq, const int (*d)[2], int n) {
    U64 m = 0; int x = sq & 7, y = sq >> 3;
    for (int k = 0; k < n; k++) { int xx = x + d[k][0], yy = y + d[k][1]; if (xx >= 0 && xx < 8 && yy >= 0 && yy < 8) m |= 1ULL << (yy * 8 + xx); }
    return m;
}
static const int KN[8][2] = {{1,2},{2,1},{-1,2},{-2,1},{1,-2},{2,-1},{-1,-2},{-2,-1}};
static const int KG[8][2] = {{1,0},{1,1},{0,1},{-1,1},{-1,0},{-1,-1},{0,-1},{1,-1}};

extern "C" {

// sliding attacks, one rank of origin squares per query (verif_param = rank), every occupancy
void h_rook(void) {
    U64 occ = nondet_u64(); int f = nondet_int(); ASSUME(f >= 0 && f < 8);
    int sq = (int)verif_param() * 8 + f;
    U64 a = BitBoard::rookAttacks(Square(sq), occ);       // real (magic multiplication + dumped tables)
    verif_observe(a);
    U64 r = refRay(sq, occ, 1, 0) | refRay(sq, occ, -1, 0) | refRay(sq, occ, 0, 1) | refRay(sq, occ, 0, -1);
    CHECK(a == r, "rookAttacks == ray walk");
    CHECK(model_rookAttacks(Square(sq), occ) == a, "ray-fill model == rookAttacks (justifies the substitution used by composite harnesses)");
    END();
}
void h_bishop(void) {
    U64 occ = nondet_u64(); int f = nondet_int(); ASSUME(f >= 0 && f < 8);
    int sq = (int)verif_param() * 8 + f;
    U64 a = BitBoard::bishopAttacks(Square(sq), occ);     // real
    verif_observe(a);
    U64 r = refRay(sq, occ, 1, 1) | refRay(sq, occ, -1, -1) | refRay(sq, occ, 1, -1) | refRay(sq, occ, -1, 1);
    CHECK(a == r, "bishopAttacks == ray walk");
    CHECK(model_bishopAttacks(Square(sq), occ) == a, "ray-fill model == bishopAttacks (justifies the substitution used by composite harnesses)");
    END();
}

void h_leapers(void) {
    int sq = nondet_int(); ASSUME(sq >= 0 && sq < 64);
    int x = sq & 7, y = sq >> 3;
    verif_observe(BitBoard::kingAttacks(Square(sq)) ^ BitBoard::knightAttacks(Square(sq)));
    CHECK(BitBoard::kingAttacks(Square(sq)) == refLeaper(sq, KG, 8), "kingAttacks");
    CHECK(BitBoard::knightAttacks(Square(sq)) == refLeaper(sq, KN, 8), "knightAttacks");
    U64 wp = 0, bp = 0;
    if (y < 7) { if (x > 0) wp |= 1ULL << (sq + 7); if (x < 7) wp |= 1ULL << (sq + 9); }
    if (y > 0) { if (x > 0) bp |= 1ULL << (sq - 9); if (x < 7) bp |= 1ULL << (sq - 7); }
    CHECK(BitBoard::wPawnAttacks(Square(sq)) == wp, "wPawnAttacks");
    CHECK(BitBoard::bPawnAttacks(Square(sq)) == bp, "bPawnAttacks");
    // en-passant neighbour masks, indexed by file
    U64 ew = 0, eb = 0;
    if (x > 0) { ew |= 1ULL << (3 * 8 + x - 1); eb |= 1ULL << (4 * 8 + x - 1); }
    if (x < 7) { ew |= 1ULL << (3 * 8 + x + 1); eb |= 1ULL << (4 * 8 + x + 1); }
    CHECK(BitBoard::epMaskW[x] == ew && BitBoard::epMaskB[x] == eb, "epMaskW/epMaskB = neighbours of the double-pushed pawn");
    // set-wise pawn attack shifts
    U64 m = nondet_u64();
    U64 wa = 0, ba = 0;
    for (int s = 0; s < 64; s++) if ((m >> s) & 1) { int sx = s & 7, sy = s >> 3;
        if (sy < 7) { if (sx > 0) wa |= 1ULL << (s + 7); if (sx < 7) wa |= 1ULL << (s + 9); }
        if (sy > 0) { if (sx > 0) ba |= 1ULL << (s - 9); if (sx < 7) ba |= 1ULL << (s - 7); } }
    CHECK(BitBoard::wPawnAttacksMask(m) == wa && BitBoard::bPawnAttacksMask(m) == ba, "pawn attack set shifts");
    END();
}

void h_between(void) {
    int a = nondet_int(), b = nondet_int(); ASSUME(a >= 0 && a < 64 && b >= 0 && b < 64);
    int ax = a & 7, ay = a >> 3, bx = b & 7, by = b >> 3, dx = bx - ax, dy = by - ay;
    int adx = dx < 0 ? -dx : dx, ady = dy < 0 ? -dy : dy;
    int sx = dx > 0 ? 1 : dx < 0 ? -1 : 0, sy = dy > 0 ? 1 : dy < 0 ? -1 : 0;
    bool line = (a != b) && (dx == 0 || dy == 0 || adx == ady);
    U64 want = 0;
    if (line) { int x = ax + sx, y = ay + sy; for (int k = 0; k < 7; k++) { if (x == bx && y == by) break; want |= 1ULL << (y * 8 + x); x += sx; y += sy; } }
    U64 got = BitBoard::squaresBetween(Square(a), Square(b));   // real table
    verif_observe(got);
    CHECK(got == want, "squaresBetween = open segment on a common line, else empty");
    // direction: 8*sign(dy)+sign(dx) on queen lines, the raw offset for knight jumps, 0 otherwise
    int d = BitBoard::getDirection(Square(a), Square(b));       // real (offset arithmetic into dirTable)
    int wantD = 0;
    if (line) wantD = 8 * sy + sx;
    else if ((adx == 1 && ady == 2) || (adx == 2 && ady == 1)) wantD = b - a;
    CHECK(d == wantD, "getDirection");
    int kd = BitBoard::getKingDistance(Square(a), Square(b));
    CHECK(kd == (adx > ady ? adx : ady), "getKingDistance");
    END();
}

void h_bits(void) {
    U64 m = nondet_u64();
    ASSUME(m != 0);
    int f = BitUtil::firstBit(m);                         // real (De Bruijn multiplication)
    CHECK(f >= 0 && f < 64 && ((m >> f) & 1) && (m & ((1ULL << f) - 1)) == 0, "firstBit = lowest set bit");
    int l = BitUtil::lastBit(m);                          // real
    CHECK(l >= 0 && l < 64 && ((m >> l) & 1) && (l == 63 || (m >> (l + 1)) == 0), "lastBit = highest set bit");
    CHECK(model_firstBit(m) == f && model_lastBit(m) == l, "ctz/clz models == firstBit/lastBit (justifies the substitution)");
    U64 m2 = m; int e = BitUtil::extractBit(m2);
    CHECK(e == f && m2 == (m & ~(1ULL << f)), "extractBit removes the lowest set bit");
    verif_observe(f); verif_observe(l);
    // mirrors
    int s = nondet_int(); ASSUME(s >= 0 && s < 64);
    CHECK(((BitBoard::mirrorX(m) >> ((s & ~7) | (7 - (s & 7)))) & 1) == ((m >> s) & 1), "mirrorX reverses files");
    CHECK(((BitBoard::mirrorY(m) >> (((7 - (s >> 3)) << 3) | (s & 7))) & 1) == ((m >> s) & 1), "mirrorY reverses ranks");
    END();
}
void h_bitcount(void) {
    U64 m = nondet_u64();
    int c = 0; for (int i = 0; i < 64; i++) c += (int)((m >> i) & 1);
    int r = BitUtil::bitCount(m);                         // real (SWAR multiplication)
    verif_observe(r);
    CHECK(r == c, "bitCount = number of set bits");
    CHECK(model_bitCount(m) == r, "popcount model == bitCount (justifies the substitution)");
    END();
}

} // extern "C"
