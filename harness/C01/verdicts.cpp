// C01-O3 - per-move verdicts of the move generator on symbolic K-man positions, against an independent
// "list of men" oracle of the rules of chess (no bitboards, no tables).
// Real code under test: MoveGen::inCheck/sqAttacked/canTakeKing/isLegal/removeIllegal/givesCheck (moveGen.{hpp,cpp}),
// Position::makeMove/unMakeMove/makeMoveB/unMakeMoveB, BitBoard tables (verified separately by C01-O1).
#include "bitBoard.cpp"
#include "material.cpp"
#include "position.cpp"
#include "moveGen.cpp"
#include "verif.h"
#include "models.h"

int pieceValue[Piece::nPieceTypes];
DEFINE_PARAM(kV);

#include "oracle.h"

extern "C" {

// inCheck / sqAttacked / canTakeKing
void h_attacks(void) {
    Brd b; int j; symbolicBoard(b, j);
    Position& pos = buildPos(b);
    bool chk = MoveGen::inCheck(pos);                               // real
    verif_observe(chk);
    CHECK(chk == attacked(b, kingSq(b, b.wtm), !b.wtm), "inCheck == king of the side to move attacked");
    int t = nondet_int(); ASSUME(t >= 0 && t < 64);
    CHECK(MoveGen::sqAttacked(pos, Square(t)) == attacked(b, t, !b.wtm), "sqAttacked == attacked by the side not to move");
    CHECK(MoveGen::canTakeKing(pos) == false, "canTakeKing false in accepted positions");
    CHECK(pos.isWhiteMove() == b.wtm, "canTakeKing restores the side to move");
    END();
}

// isLegal and removeIllegal on a symbolic pseudo-legal move of the chosen mover
void h_islegal(void) {
    Brd b; int j; symbolicBoard(b, j);
    int from = b.men[j].s, to = nondet_int(), prom = nondet_int();
    ASSUME(to >= 0 && to < 64 && prom >= 0 && prom <= 12);
    bool epCap, castleMove;
    if (j < 2) ASSUME((moveClass == 1) == (iabs((to & 7) - (from & 7)) == 2));
    ASSUME(pseudoLegal(b, from, to, prom, epCap, castleMove));
#ifdef EPONLY
    ASSUME(epCap);                                        // en-passant captures only (5-man family: pins through the vanishing pawn)
#endif
    bool gc; bool legal = legalMove(b, from, to, prom, gc);
    Position& pos = buildPos(b);
    Move m(Square(from), Square(to), prom);
    bool chk = attacked(b, kingSq(b, b.wtm), !b.wtm);
    bool l1 = MoveGen::isLegal(pos, m, chk);                       // real
    verif_observe(l1);
    CHECK(l1 == legal, "isLegal agrees with playing the move");
    // isLegal must leave the position as it found it
    bool same = pos.isWhiteMove() == b.wtm && pos.getCastleMask() == b.castle && pos.getEpSquare().asInt() == b.ep;
    for (int i = 0; i < 64; i++) same = same && pos.getPiece(Square(i)) == pieceAt(b, i);
    CHECK(same, "isLegal restores the board");
    END();
}
void h_removeillegal(void) {
    Brd b; int j; symbolicBoard(b, j);
    int from = b.men[j].s, to = nondet_int(), prom = nondet_int();
    ASSUME(to >= 0 && to < 64 && prom >= 0 && prom <= 12);
    bool epCap, castleMove;
    if (j < 2) ASSUME((moveClass == 1) == (iabs((to & 7) - (from & 7)) == 2));
    ASSUME(pseudoLegal(b, from, to, prom, epCap, castleMove));
#ifdef EPONLY
    ASSUME(epCap);
#endif
    bool gc; bool legal = legalMove(b, from, to, prom, gc);
    Position& pos = buildPos(b);
    MoveList ml; ml.addMove(Square(from), Square(to), prom);
    MoveGen::removeIllegal(pos, ml);                               // real: the filter treats list elements independently
    verif_observe(ml.size);
    CHECK(ml.size == (legal ? 1 : 0), "removeIllegal keeps exactly the legal moves");
    if (ml.size == 1) CHECK(ml[0].from().asInt() == from && ml[0].to().asInt() == to && ml[0].promoteTo() == prom, "kept move unchanged");
    bool same = pos.isWhiteMove() == b.wtm && pos.getCastleMask() == b.castle && pos.getEpSquare().asInt() == b.ep;
    for (int i = 0; i < 64; i++) same = same && pos.getPiece(Square(i)) == pieceAt(b, i);
    CHECK(same, "removeIllegal restores the board");
    END();
}
// givesCheck on legal moves
void h_givescheck(void) {
    Brd b; int j; symbolicBoard(b, j);
    int from = b.men[j].s, to = nondet_int(), prom = nondet_int();
    ASSUME(to >= 0 && to < 64 && prom >= 0 && prom <= 12);
    if (j < 2) ASSUME((moveClass == 1) == (iabs((to & 7) - (from & 7)) == 2));
    bool gc; ASSUME(legalMove(b, from, to, prom, gc));
#ifdef EPONLY
    { bool e2, c2; pseudoLegal(b, from, to, prom, e2, c2); ASSUME(e2); }
#endif
    Position& pos = buildPos(b);
    Move m(Square(from), Square(to), prom);
    bool g = MoveGen::givesCheck(pos, m);                          // real
    verif_observe(g);
    CHECK(g == gc, "givesCheck agrees with playing the move");
    END();
}

} // extern "C"
