// C01-O2 - the four move generators against the list-of-men oracle on symbolic K-man positions.
// Decomposition (each part decided by its own query in the same run):
//   (a) the generators compute, per piece, a *mask* of destination squares and hand it to addMovesByMask /
//       addPawnMovesByMask<wtm> / addPawnDoubleMovesByMask.  Here those three helpers are redirected to recording
//       models, and the recorded (origin, mask, delta, promotion-mode) tuples + the real list (castling moves, added with
//       addMove directly) are compared with the oracle: exact equality of the move *set* incl. multiplicity for
//       pseudoLegalMoves; one-sided containment for checkEvasions / pseudoLegalCaptures / pseudoLegalCapturesAndChecks.
//   (b) h_expand_*: the real helpers expand an arbitrary mask into exactly the moves the recording stands for.
// Real code under test: MoveGen::pseudoLegalMoves/checkEvasions/pseudoLegalCaptures/pseudoLegalCapturesAndChecks<wtm>
// (moveGen.cpp:48-456), MoveGen::addMovesByMask/addPawnMovesByMask/addPawnDoubleMovesByMask, MoveList::addMove.
#include "bitBoard.cpp"
#include "material.cpp"
#include "position.cpp"
#include "moveGen.cpp"
#include "verif.h"
#include "models.h"

int pieceValue[Piece::nPieceTypes];
DEFINE_PARAM(kV);

#include "oracle.h"

// ---- recording models of the list-expansion helpers
struct Rec { int kind; int sq0; U64 mask; int delta; bool allProm; bool wtm; };   // kind 0 piece, 1 pawn, 2 pawn double
#define MAXREC (NMEN + 8)   // king + <= NMEN-2 pieces + <= 6 pawn-helper calls per generator
static Rec rec[MAXREC]; static int nrec; static bool recOverflow;
static void addRec(int kind, int sq0, U64 mask, int delta, bool allProm, bool wtm) {
    if (nrec < MAXREC) { rec[nrec].kind = kind; rec[nrec].sq0 = sq0; rec[nrec].mask = mask; rec[nrec].delta = delta; rec[nrec].allProm = allProm; rec[nrec].wtm = wtm; nrec++; }
    else recOverflow = true;
}
extern "C" void model_addMovesByMask(MoveList& ml, Square sq0, U64 mask) { addRec(0, sq0.asInt(), mask, 0, false, false); }
extern "C" void model_addPawnMovesByMaskW(MoveList& ml, U64 mask, int delta, bool allProm) { addRec(1, -1, mask, delta, allProm, true); }
extern "C" void model_addPawnMovesByMaskB(MoveList& ml, U64 mask, int delta, bool allProm) { addRec(1, -1, mask, delta, allProm, false); }
extern "C" void model_addPawnDoubleMovesByMask(MoveList& ml, U64 mask, int delta) { addRec(2, -1, mask, delta, false, false); }

// how many times does the recorded output + real list contain the move (from,to,prom)?
static int occurrences(const MoveList& ml, int from, int to, int prom) {
    int n = 0;
    for (int k = 0; k < MAXREC; k++) {
        if (k >= nrec) continue;
        const Rec& r = rec[k];
        if (!((r.mask >> to) & 1)) continue;
        if (r.kind == 0) { if (r.sq0 == from && prom == 0) n++; }
        else if (r.kind == 2) { if (from == to + r.delta && prom == 0) n++; }
        else {
            if (from != to + r.delta) continue;
            bool last = to >= 56 || to < 8;
            if (!last) { if (prom == 0) n++; }
            else {
                int q = r.wtm ? Piece::WQUEEN : Piece::BQUEEN, nn = r.wtm ? Piece::WKNIGHT : Piece::BKNIGHT;
                int rr = r.wtm ? Piece::WROOK : Piece::BROOK, bb = r.wtm ? Piece::WBISHOP : Piece::BBISHOP;
                if (prom == q || prom == nn || (r.allProm && (prom == rr || prom == bb))) n++;
            }
        }
    }
    for (int i = 0; i < 4; i++) if (i < ml.size && ml[i].from().asInt() == from && ml[i].to().asInt() == to && ml[i].promoteTo() == prom) n++;
    return n;
}

static RawBox<MoveList> mlBox;
static MoveList& freshList() { MoveList& ml = mlBox.obj; ml.size = 0; return ml; }

template <bool wtm> static void runGen(int which, const Position& pos, MoveList& ml) {
    switch (which) {
    case 0: MoveGen::pseudoLegalMoves<wtm>(pos, ml); break;
    case 1: MoveGen::checkEvasions<wtm>(pos, ml); break;
    case 2: MoveGen::pseudoLegalCaptures<wtm>(pos, ml); break;
    case 3: MoveGen::pseudoLegalCapturesAndChecks<wtm>(pos, ml); break;
    }
}

extern "C" {

// param = which generator (0..3) + 4 * side to move (0 black, 1 white)
void h_gen(void) {
    int which = (int)verif_param() & 3; bool wtm = ((verif_param() >> 2) & 1) != 0;
    Brd b; symbolicBoardAnyMover(b, wtm);
    Position& pos = buildPos(b);
    bool chk = attacked(b, kingSq(b, b.wtm), !b.wtm);
    if (which == 1) ASSUME(chk);                          // checkEvasions is only called when in check
    nrec = 0; recOverflow = false;
    MoveList& ml = freshList();
    if (wtm) runGen<true>(which, pos, ml); else runGen<false>(which, pos, ml);      // real generator, recording helpers
    verif_observe(nrec); verif_observe(ml.size);
    CHECK(!recOverflow && ml.size <= 2, "bounded helper calls; only castling moves are added directly");
    int from = nondet_int(), to = nondet_int(), prom = nondet_int();
    ASSUME(from >= 0 && from < 64 && to >= 0 && to < 64 && prom >= 0 && prom <= 12);
    bool epCap, castleMove;
    bool pl = pseudoLegal(b, from, to, prom, epCap, castleMove);
    bool gc = false; bool legal = pl && legalMove(b, from, to, prom, gc);
    int n = occurrences(ml, from, to, prom);
    int c = pieceAt(b, to);
    bool capture = c != 0 || epCap;
    bool underProm = prom != 0 && kindOf(prom) != 2 && kindOf(prom) != 5;
    switch (which) {
    case 0:
        CHECK(n == (pl ? 1 : 0), "pseudoLegalMoves lists exactly the pseudo-legal moves, each once");
        break;
    case 1:
        CHECK(n <= 1, "no duplicates among check evasions");
        if (n == 1) CHECK(pl, "every listed evasion is a pseudo-legal move");
        if (legal) CHECK(n == 1, "checkEvasions omits no legal move when in check");
        break;
    case 2:
        CHECK(n <= 1, "no duplicates among captures");
        if (n == 1) CHECK(pl && (capture || prom != 0), "every listed move is a pseudo-legal capture or promotion");
        if (legal && !underProm && (capture || prom != 0)) CHECK(n == 1, "pseudoLegalCaptures omits no legal capture or queen/knight promotion");
        break;
    case 3:
        CHECK(n <= 1, "no duplicates among captures-and-checks");
        if (n == 1) CHECK(pl, "every listed move is pseudo-legal");
        if (legal && !underProm && (capture || prom != 0 || gc)) CHECK(n == 1, "pseudoLegalCapturesAndChecks omits no legal capture, queen/knight promotion or checking move");
        break;
    }
    END();
}

} // extern "C"
