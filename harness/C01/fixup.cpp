// C01-O4 - the en-passant fix-up used by the FEN reader and the reverse move generator: after TextIO::fixupEPSquare the
// en-passant square is kept iff some pawn of the side to move can legally capture en passant (oracle), nothing else changes.
// Real code under test: TextIO::fixupEPSquare (textio.cpp:182-200) = MoveGen::pseudoLegalMoves + MoveGen::removeIllegal on the
// real move list (no recording here), Position::setEpSquare.
#include "bitBoard.cpp"
#include "material.cpp"
#include "position.cpp"
#include "moveGen.cpp"
#include "textio.cpp"
#include "verif.h"
#include "models.h"

int pieceValue[Piece::nPieceTypes];
DEFINE_PARAM(kV);

#ifndef NMEN
#define NMEN 4
#endif
#include "oracle.h"

static int fixedEp(const Brd& b) {
    if (b.ep == -1) return -1;
    bool any = false;
    for (int k = 2; k < NMEN; k++) {
        int p = b.men[k].p;
        if (p != (b.wtm ? Piece::WPAWN : Piece::BPAWN)) continue;
        bool gc; if (legalMove(b, b.men[k].s, b.ep, 0, gc)) any = true;
    }
    return any ? b.ep : -1;
}

#ifdef ABSLIST
// Compositional variant: pseudoLegalMoves followed by removeIllegal is replaced by its contract (C01 O2/O3: the list holds exactly the legal moves).  The scan of
// fixupEPSquare looks at an entry only if its destination is the en-passant square, so the list is modelled as: every legal move onto the ep square (one candidate
// per man, decided by the oracle), interleaved in any way with up to MAXX arbitrary entries that go elsewhere.  What remains real is fixupEPSquare's own scan
// (destination == ep square, moving piece is a pawn of the side to move) and the ep-square/hash update.
#ifndef MAXX
#define MAXX 2
#endif
static Brd gB; static bool listBoardMismatch;
extern "C" void model_legalList(const Position& pos, MoveList& ml) {
    bool same = pos.isWhiteMove() == gB.wtm && pos.getCastleMask() == gB.castle && pos.getEpSquare().asInt() == gB.ep;
    for (int i = 0; i < 64; i++) same = same && pos.getPiece(Square(i)) == pieceAt(gB, i);
    if (!same) listBoardMismatch = true;
    ml.size = 0;
    int extras = 0;
    for (int k = 0; k <= NMEN; k++) {
        // arbitrary other entries before / between / after the moves onto the ep square
        for (int e = 0; e < MAXX; e++) {
            if (extras < MAXX && nondet_bool()) {
                int from = nondet_int(), to = nondet_int(), prom = nondet_int();
                ASSUME(from >= 0 && from < 64 && to >= 0 && to < 64 && to != gB.ep && prom >= 0 && prom <= 12);
                ml.addMove(Square(from), Square(to), prom); extras++;
            }
        }
        if (k == NMEN) break;
        if (gB.men[k].p == 0) continue;
        bool gc; if (legalMove(gB, gB.men[k].s, gB.ep, 0, gc)) ml.addMove(Square(gB.men[k].s), Square(gB.ep), 0);
    }
}
extern "C" void model_removeIllegalNop(Position& pos, MoveList& ml) {}
#endif

extern "C" void h_fixup(void) {
    Brd b; bool wtm = (verif_param() & 1) != 0;
    symbolicBoardAnyMover(b, wtm);
    ASSUME(b.ep != -1);                                   // (without an ep square the function returns at once)
#ifdef ABSLIST
    gB = b; listBoardMismatch = false;
#endif
    Position& pos = buildPos(b);
    U64 h0 = pos.zobristHash();
    TextIO::fixupEPSquare(pos);                           // real
    int want = fixedEp(b);
    verif_observe((U64)(unsigned)pos.getEpSquare().asInt());
#ifdef ABSLIST
    CHECK(!listBoardMismatch, "the move list is asked for the unchanged position");
#endif
    CHECK(pos.getEpSquare().asInt() == want, "ep square kept iff a pawn can legally capture en passant");
    bool same = pos.isWhiteMove() == b.wtm && pos.getCastleMask() == b.castle;
    for (int i = 0; i < 64; i++) same = same && pos.getPiece(Square(i)) == pieceAt(b, i);
    CHECK(same, "nothing but the ep square changes");
    CHECK((pos.zobristHash() == h0) == (want == b.ep), "hash key follows the ep square");
    END();
}
