// C01-O4 - the en-passant fix-up used by the FEN reader and the reverse move generator: after TextIO::fixupEPSquare the
// en-passant square is kept iff some pawn of the side to move can legally capture en passant (oracle), nothing else changes.
// Real code under test: TextIO::fixupEPSquare (textio.cpp:182-200) = MoveGen::pseudoLegalMoves + MoveGen::removeIllegal on the
// real move list (no recording here), Position::setEpSquare.
#include "bitBoard.cpp"
#include "material.cpp"
#include "position.cpp"
#include "moveGen.cpp"
#include "textio.cpp"
#include "verif.h"
#include "models.h"

int pieceValue[Piece::nPieceTypes];
DEFINE_PARAM(kV);

#ifndef NMEN
#define NMEN 4
#endif
#include "oracle.h"

static int fixedEp(const Brd& b) {
    if (b.ep == -1) return -1;
    bool any = false;
    for (int k = 2; k < NMEN; k++) {
        int p = b.men[k].p;
        if (p != (b.wtm ? Piece::WPAWN : Piece::BPAWN)) continue;
        bool gc; if (legalMove(b, b.men[k].s, b.ep, 0, gc)) any = true;
    }
    return any ? b.ep : -1;
}

extern "C" void h_fixup(void) {
    Brd b; bool wtm = (verif_param() & 1) != 0;
    symbolicBoardAnyMover(b, wtm);
    ASSUME(b.ep != -1);                                   // (without an ep square the function returns at once)
    Position& pos = buildPos(b);
    U64 h0 = pos.zobristHash();
    TextIO::fixupEPSquare(pos);                           // real
    int want = fixedEp(b);
    verif_observe((U64)(unsigned)pos.getEpSquare().asInt());
    CHECK(pos.getEpSquare().asInt() == want, "ep square kept iff a pawn can legally capture en passant");
    bool same = pos.isWhiteMove() == b.wtm && pos.getCastleMask() == b.castle;
    for (int i = 0; i < 64; i++) same = same && pos.getPiece(Square(i)) == pieceAt(b, i);
    CHECK(same, "nothing but the ep square changes");
    CHECK((pos.zobristHash() == h0) == (want == b.ep), "hash key follows the ep square");
    END();
}
