// C01-O4 - the en-passant fix-up used by the FEN reader and the reverse move generator: after TextIO::fixupEPSquare the
// en-passant square is kept iff some pawn of the side to move can legally capture en passant (oracle), nothing else changes.
// Real code under test: TextIO::fixupEPSquare (textio.cpp:182-200) = MoveGen::pseudoLegalMoves + MoveGen::removeIllegal on the
// real move list (no recording here), Position::setEpSquare.
#include "bitBoard.cpp"
#include "material.cpp"
#include "position.cpp"
#include "moveGen.cpp"
#include "textio.cpp"
#include "verif.h"
#include "models.h"

int pieceValue[Piece::nPieceTypes];
DEFINE_PARAM(kV);

#ifndef NMEN
#define NMEN 4
#endif
#include "oracle.h"

static int fixedEp(const Brd& b) {
    if (b.ep == -1) return -1;
    bool any = false;
    for (int k = 2; k < NMEN; k++) {
        int p = b.men[k].p;
        if (p != (b.wtm ? Piece::WPAWN : Piece::BPAWN)) continue;
        bool gc; if (legalMove(b, b.men[k].s, b.ep, 0, gc)) any = true;
    }
    return any ? b.ep : -1;
}

#ifdef ABSLIST
// Compositional variant: pseudoLegalMoves followed by removeIllegal is replaced by its contract (C01 O2/O3: the list holds legal moves only and no legal move is
// missing): an arbitrary list of at most MAXL legal moves that contains every legal move onto the en-passant square.  What remains real is fixupEPSquare's own
// scan (destination == ep square, moving piece is a pawn of the side to move) and the ep-square/hash update.
#ifndef MAXL
#define MAXL 4
#endif
static Brd gB; static bool listBoardMismatch;
extern "C" void model_legalList(const Position& pos, MoveList& ml) {
    bool same = pos.isWhiteMove() == gB.wtm && pos.getCastleMask() == gB.castle && pos.getEpSquare().asInt() == gB.ep;
    for (int i = 0; i < 64; i++) same = same && pos.getPiece(Square(i)) == pieceAt(gB, i);
    if (!same) listBoardMismatch = true;
    int n = nondet_int(); ASSUME(n >= 0 && n <= MAXL);
    ml.size = 0;
    int lf[MAXL], lt[MAXL];
    for (int i = 0; i < MAXL; i++) {
        lf[i] = lt[i] = -1;
        if (i < n) {
            int from = nondet_int(), to = nondet_int(), prom = nondet_int(); bool gc;
            ASSUME(from >= 0 && from < 64 && to >= 0 && to < 64 && prom >= 0 && prom <= 12);
            ASSUME(legalMove(gB, from, to, prom, gc));
            ml.addMove(Square(from), Square(to), prom); lf[i] = from; lt[i] = to;
        }
    }
    for (int k = 0; k < NMEN; k++) {                      // no legal move onto the ep square is missing
        if (gB.men[k].p == 0) continue;
        bool gc; if (!legalMove(gB, gB.men[k].s, gB.ep, 0, gc)) continue;
        bool listed = false; for (int i = 0; i < MAXL; i++) listed = listed || (lf[i] == gB.men[k].s && lt[i] == gB.ep);
        ASSUME(listed);
    }
}
extern "C" void model_removeIllegalNop(Position& pos, MoveList& ml) {}
#endif

extern "C" void h_fixup(void) {
    Brd b; bool wtm = (verif_param() & 1) != 0;
    symbolicBoardAnyMover(b, wtm);
    ASSUME(b.ep != -1);                                   // (without an ep square the function returns at once)
#ifdef ABSLIST
    gB = b; listBoardMismatch = false;
#endif
    Position& pos = buildPos(b);
    U64 h0 = pos.zobristHash();
    TextIO::fixupEPSquare(pos);                           // real
    int want = fixedEp(b);
    verif_observe((U64)(unsigned)pos.getEpSquare().asInt());
#ifdef ABSLIST
    CHECK(!listBoardMismatch, "the move list is asked for the unchanged position");
#endif
    CHECK(pos.getEpSquare().asInt() == want, "ep square kept iff a pawn can legally capture en passant");
    bool same = pos.isWhiteMove() == b.wtm && pos.getCastleMask() == b.castle;
    for (int i = 0; i < 64; i++) same = same && pos.getPiece(Square(i)) == pieceAt(b, i);
    CHECK(same, "nothing but the ep square changes");
    CHECK((pos.zobristHash() == h0) == (want == b.ep), "hash key follows the ep square");
    END();
}
