// C01-O2(b) - the list-expansion helpers of the move generators: an arbitrary destination mask is turned into exactly the
// moves it stands for, appended after the existing entries, nothing else touched.
// Real code under test: MoveGen::addMovesByMask / addPawnMovesByMask<wtm> / addPawnDoubleMovesByMask, MoveList::addMove.
#include "bitBoard.cpp"
#include "material.cpp"
#include "position.cpp"
#include "moveGen.cpp"
#include "verif.h"

int pieceValue[Piece::nPieceTypes];
DEFINE_PARAM(kV);

static RawBox<MoveList> mlBox;
static int popcnt(U64 m) { int c = 0; for (int i = 0; i < 64; i++) c += (int)((m >> i) & 1); return c; }

extern "C" {

// param & 3: 0 addMovesByMask, 1 addPawnMovesByMask<white>, 2 addPawnMovesByMask<black>, 3 addPawnDoubleMovesByMask; param >> 2: initial list fill
void h_expand(void) {
    int which = (int)verif_param() & 3;
    MoveList& ml = mlBox.obj;
    static const int fills[3] = {0, 5, 200};             // list fill before the call: a per-query constant (symbolic fills made the query explode)
    int s0 = fills[((int)verif_param() >> 2) % 3];
    ml.size = s0;
    // one arbitrary pre-existing entry is tracked to show older entries are not disturbed
    int probe = nondet_int(); ASSUME(probe >= 0 && probe < s0 + 1 && probe < 256);
    int pf = nondet_int() & 63, pt = nondet_int() & 63, pp = nondet_int() & 15;
    if (probe < s0) ml[probe].setMove(Square(pf), Square(pt), pp, 7);
    U64 mask = nondet_u64();
    int sq0 = nondet_int(), delta = nondet_int(); bool allProm = nondet_bool();
    ASSUME(sq0 >= 0 && sq0 < 64);
    int n = popcnt(mask);
    int to = nondet_int(), from = nondet_int(), prom = nondet_int();
    ASSUME(to >= 0 && to < 64 && from >= 0 && from < 64 && prom >= 0 && prom <= 12);
    int want = 0, total = 0;
    bool bit = ((mask >> to) & 1) != 0;
    if (which == 0) {
        ASSUME(n <= 28);
        MoveGen::addMovesByMask(ml, Square(sq0), mask);                    // real
        total = n; want = (bit && from == sq0 && prom == 0) ? 1 : 0;
    } else if (which == 3) {
        ASSUME(n <= 8 && (delta == 16 || delta == -16));
        ASSUME(delta == -16 ? (mask & ~BitBoard::maskRow4) == 0 : (mask & ~BitBoard::maskRow5) == 0);
        MoveGen::addPawnDoubleMovesByMask(ml, mask, delta);                // real
        total = n; want = (bit && from == to + delta && prom == 0) ? 1 : 0;
    } else {
        bool wtm = which == 1;
        ASSUME(n <= 8);
        ASSUME(wtm ? (delta == -8 || delta == -7 || delta == -9) : (delta == 8 || delta == 7 || delta == 9));
        ASSUME(wtm ? (mask & (BitBoard::maskRow1 | BitBoard::maskRow2)) == 0 : (mask & (BitBoard::maskRow8 | BitBoard::maskRow7)) == 0);
        if (wtm) MoveGen::addPawnMovesByMask<true>(ml, mask, delta, allProm); else MoveGen::addPawnMovesByMask<false>(ml, mask, delta, allProm);   // real
        int np = popcnt(mask & BitBoard::maskRow1Row8);
        total = (n - np) + np * (allProm ? 4 : 2);
        bool last = to >= 56 || to < 8;
        int q = wtm ? Piece::WQUEEN : Piece::BQUEEN, kn = wtm ? Piece::WKNIGHT : Piece::BKNIGHT, r = wtm ? Piece::WROOK : Piece::BROOK, b = wtm ? Piece::WBISHOP : Piece::BBISHOP;
        bool promOk = last ? (prom == q || prom == kn || (allProm && (prom == r || prom == b))) : prom == 0;
        want = (bit && from == to + delta && promOk) ? 1 : 0;
    }
    verif_observe(ml.size);
    CHECK(ml.size == s0 + total, "list grows by exactly the number of moves the mask stands for");
    int cnt = 0;
    for (int i = 0; i < 64; i++) { int idx = s0 + i; if (idx < ml.size && ml[idx].from().asInt() == from && ml[idx].to().asInt() == to && ml[idx].promoteTo() == prom) cnt++; }   // at most 32 new entries
    CHECK(cnt == want, "each move of the mask is appended exactly once, nothing else");
    if (probe < s0) CHECK(ml[probe].from().asInt() == pf && ml[probe].to().asInt() == pt && ml[probe].promoteTo() == pp, "existing entries untouched");
    END();
}

} // extern "C"
