// C20 - rank-constraint solver: BitSet primitives, one arc-consistency revision, bounded exactness of solve().
// Real code under test: lib/texelutillib/bitSet.hpp, lib/texelutillib/pg/cspsolver.{hpp,cpp}
#include "bitBoard.cpp"
#include "cspsolver.cpp"
#include "verif.h"
#include "models.h"

typedef BitSet<64, -16> Dom;
typedef BitSet<192> CSet;

static bool in(U64 w, int v) { return v >= -16 && v <= 47 && ((w >> (v + 16)) & 1); }

extern "C" {

// ---- O1: BitSet<64,-16> against set semantics, all 2^64 words, all arguments in the documented range
void h_bitset64(void) {
    U64 w = nondet_u64(), w2 = nondet_u64();
    int a = nondet_int(), b = nondet_int(), q = nondet_int();
    ASSUME(a >= -16 && a <= 47 && b >= -16 && b <= 47 && q >= -16 && q <= 47);
    int which = nondet_int(); ASSUME(which >= 0 && which <= 11);
    Dom d; d.data[0] = w;
    Dom e; e.data[0] = w2;
    U64 r; // expected word
    switch (which) {
    case 0: d.setBit(a); r = w | (1ULL << (a + 16)); CHECK(d.data[0] == r, "setBit"); break;
    case 1: d.clearBit(a); r = w & ~(1ULL << (a + 16)); CHECK(d.data[0] == r, "clearBit"); break;
    case 2: CHECK(d.getBit(a) == in(w, a), "getBit"); break;
    case 3: d.setRange(a, b); CHECK(in(d.data[0], q) == (q >= a && q <= b), "setRange membership"); break;
    case 4: d.removeSmaller(a); CHECK(in(d.data[0], q) == (in(w, q) && q >= a), "removeSmaller"); break;
    case 5: d.removeLarger(a); CHECK(in(d.data[0], q) == (in(w, q) && q <= a), "removeLarger"); break;
    case 6: d.removeOdd(); CHECK(in(d.data[0], q) == (in(w, q) && (q & 1) == 0), "removeOdd keeps exactly the even values"); break;
    case 7: d.removeEven(); CHECK(in(d.data[0], q) == (in(w, q) && (q & 1) != 0), "removeEven keeps exactly the odd values"); break;
    case 8: { int m = d.getMinBit();
              if (w == 0) CHECK(m == -1, "getMinBit of empty set");
              else { CHECK(m >= -16 && m <= 47 && in(w, m), "getMinBit is a member"); CHECK(!in(w, q) || q >= m, "getMinBit is minimal"); }
              CHECK(d.empty() == (w == 0), "empty"); break; }
    case 9: { int m = d.getMaxBit();
              if (w == 0) CHECK(m == -1, "getMaxBit of empty set");
              else { CHECK(m >= -16 && m <= 47 && in(w, m), "getMaxBit is a member"); CHECK(!in(w, q) || q <= m, "getMaxBit is maximal"); }
              break; }
    case 10: { int c = 0; for (int i = 0; i < 64; i++) c += (w >> i) & 1; CHECK(d.bitCount() == c, "bitCount"); break; }
    case 11: { Dom f = d; f |= e; CHECK(f.data[0] == (w | w2), "operator|=");
               Dom g = d; g &= e; CHECK(g.data[0] == (w & w2), "operator&=");
               CHECK((d == e) == (w == w2) && (d != e) == (w != w2), "operator==/!="); break; }
    }
    verif_observe(d.data[0]);
    // boundary arguments the solver itself may pass (makeArcConsistent guards): removeLarger(-17), removeSmaller(-16)
    Dom h; h.data[0] = w; h.removeLarger(-17); CHECK(h.data[0] == 0, "removeLarger(min-1) empties");
    Dom k; k.data[0] = w; k.removeSmaller(-16); CHECK(k.data[0] == w, "removeSmaller(min) is identity");
    END();
}

// ---- O1b: BitSet<192> (constraint sets)
static bool in3(const U64* w, int v) { return v >= 0 && v < 192 && ((w[v >> 6] >> (v & 63)) & 1); }
void h_bitset192(void) {
    U64 w[3] = { nondet_u64(), nondet_u64(), nondet_u64() };
    int a = nondet_int(), q = nondet_int(), n = nondet_int();
    ASSUME(a >= 0 && a < 192 && q >= 0 && q < 192 && n >= 0 && n <= 192);
    int which = nondet_int(); ASSUME(which >= 0 && which <= 6);
    CSet d; for (int i = 0; i < 3; i++) d.data[i] = w[i];
    switch (which) {
    case 0: d.setRange(0, n - 1); CHECK(in3(d.data, q) == (q < n), "setRange(0,n-1) = first n constraints (n may be 0)"); break;
    case 1: d.setBit(a); CHECK(in3(d.data, q) == (in3(w, q) || q == a), "setBit"); break;
    case 2: d.clearBit(a); CHECK(in3(d.data, q) == (in3(w, q) && q != a), "clearBit"); break;
    case 3: { int m = d.getMinBit(); bool e = (w[0] | w[1] | w[2]) == 0;
              CHECK(d.empty() == e, "empty");
              if (e) CHECK(m == -1, "getMinBit empty"); else { CHECK(m >= 0 && m < 192 && in3(w, m), "getMinBit member"); CHECK(!in3(w, q) || q >= m, "getMinBit minimal"); }
              break; }
    case 4: { int m = d.getMaxBit(); bool e = (w[0] | w[1] | w[2]) == 0;
              if (e) CHECK(m == -1, "getMaxBit empty"); else { CHECK(m >= 0 && m < 192 && in3(w, m), "getMaxBit member"); CHECK(!in3(w, q) || q <= m, "getMaxBit maximal"); }
              break; }
    case 5: d.removeSmaller(a); CHECK(in3(d.data, q) == (in3(w, q) && q >= a), "removeSmaller"); break;
    case 6: d.removeLarger(a); CHECK(in3(d.data, q) == (in3(w, q) && q <= a), "removeLarger"); break;
    }
    verif_observe(d.data[0] ^ d.data[1] ^ d.data[2]);
    END();
}

// ---------------- a CspSolver object built in place (vectors point at static arrays) ----------------
#ifndef MAXV
#define MAXV 3
#endif
#ifndef MAXC
#define MAXC 3
#endif
// typed storage whose constructors are not run (byte arrays reinterpreted as structs make CBMC fall back to byte-level encodings)
union SolverBox { CspSolver cs; SolverBox() {} ~SolverBox() {} };
static SolverBox solverBox;
union ConBox { CspSolver::Constraint c[MAXC]; ConBox() {} ~ConBox() {} };
static ConBox conBox;
static Dom domArr[MAXV];
static CspSolver::PrefVal prefArr[MAXV];
static CSet v2cArr[MAXV];
static int valArr[MAXV];

static CspSolver& mkSolver(int nVars, int nConstr) {
    CspSolver& cs = solverBox.cs;
    pointVec(cs.domain, domArr, nVars, MAXV);
    pointVec(cs.prefVal, prefArr, nVars, MAXV);
    pointVec(cs.constr, conBox.c, nConstr, MAXC);
    pointVec(cs.varToConstr, v2cArr, nVars, MAXV);
    cs.nodes = 0; cs.silent = true;
    return cs;
}
static void setConstr(int i, int v1, int v2, int c) { new (&conBox.c[i]) CspSolver::Constraint(v1, v2, c); }

// ---- O2: one constraint => makeArcConsistent performs revisions of that single arc; it must be sound
//      (no value that takes part in a solution of the arc is removed) and exact when it answers "no".
void h_arc(void) {
    bool same = verif_param() != 0;            // case split: 0 = two distinct variables, 1 = self constraint v <= v + c
    int nVars = same ? 1 : 2;
    CspSolver& cs = mkSolver(nVars, 1);
    U64 D0 = nondet_u64(), D1 = nondet_u64();
    int c = nondet_int(); ASSUME(c >= -70 && c <= 70);
    if (same) {   // a self constraint with c < 0 shrinks the domain once per revision: bound the domain to a window of 6 values
        int base = nondet_int(); ASSUME(base >= 0 && base <= 58);
        D0 &= 0x3fULL << base;
    }
    domArr[0].data[0] = D0; domArr[1].data[0] = D1;
    bool flip = nondet_bool();
    int v1 = same ? 0 : (flip ? 1 : 0), v2 = same ? 0 : (flip ? 0 : 1);
    setConstr(0, v1, v2, c);
    for (int i = 0; i < MAXV; i++) v2cArr[i].clear();
    v2cArr[v1].setBit(0); v2cArr[v2].setBit(0);
    bool ok = cs.makeArcConsistent();                    // real
    U64 A = v1 == 0 ? D0 : D1, B = v2 == 0 ? D0 : D1;   // original domains of v1, v2
    U64 A2 = domArr[v1].data[0], B2 = domArr[v2].data[0];
    verif_observe(ok); verif_observe(A2); verif_observe(B2);
    int x = nondet_int(), y = nondet_int();
    ASSUME(x >= -16 && x <= 47 && y >= -16 && y <= 47);
    if (same) y = x;
    bool pairOk = in(A, x) && in(B, y) && x <= y + c;   // (x,y) is a solution of the single arc
    if (pairOk) {
        CHECK(ok, "arc consistency never answers 'unsolvable' when a solution pair exists");
        CHECK(in(A2, x) && in(B2, y), "values of a solution pair are never pruned");
    }
    CHECK((A2 & ~A) == 0 && (B2 & ~B) == 0, "domains only shrink");
    END();
}

// ---- O3: bounded exactness of solve()
#ifndef WIDTH
#define WIDTH 3
#endif
static std::vector<int>& valuesVec() {
    static unsigned char mem[sizeof(std::vector<int>)];
    std::vector<int>& v = *reinterpret_cast<std::vector<int>*>(mem);
    pointVec(v, valArr, 0, MAXV);
    return v;
}
void h_solve(void) {
#ifdef DIRECT
    int nVars = MAXV, nConstr = MAXC;        // exact sizes (smaller systems = smaller configurations): keeps the recursion depth static
#else
    int nVars = nondet_int(), nConstr = nondet_int();
    ASSUME(nVars >= 1 && nVars <= MAXV && nConstr >= 0 && nConstr <= MAXC);
#endif
    CspSolver& cs = mkSolver(nVars, nConstr);
    int base = nondet_int(); ASSUME(base >= -16 && base + WIDTH - 1 <= 47);
    U64 D[MAXV]; int cv1[MAXC], cv2[MAXC], cc[MAXC];
    for (int i = 0; i < MAXV; i++) {
        U64 bits = nondet_u64() & ((1ULL << WIDTH) - 1);
        D[i] = bits << (base + 16);
        domArr[i].data[0] = D[i];
        int p = nondet_int(); ASSUME(p >= 0 && p <= 3);
        prefArr[i] = (CspSolver::PrefVal)p;
    }
    for (int k = 0; k < MAXC; k++) {
        cv1[k] = nondet_int(); cv2[k] = nondet_int(); cc[k] = nondet_int();
        ASSUME(cv1[k] >= 0 && cv1[k] < nVars && cv2[k] >= 0 && cv2[k] < nVars && cc[k] >= -WIDTH - 1 && cc[k] <= WIDTH + 1);
        setConstr(k, cv1[k], cv2[k], cc[k]);
    }
    std::vector<int>& values = valuesVec();
#ifdef DIRECT
    // what CspSolver::solve() does, minus its std::vector::assign boilerplate (values := -1, varToConstr := per-variable
    // constraint sets), which is done here directly: the two real phases are called in solve()'s order
    pointVec(values, valArr, nVars, MAXV);
    for (int i = 0; i < MAXV; i++) { valArr[i] = -1; v2cArr[i].clear(); }
    for (int k = 0; k < MAXC; k++) if (k < nConstr) { v2cArr[cv1[k]].setBit(k); v2cArr[cv2[k]].setBit(k); }
    cs.nodes = 0;
#ifdef SEARCHONLY
    bool res = cs.solveRecursive(0, values);                                // real: the backtracking search alone is already exact
#else
    bool res = cs.makeArcConsistent() && cs.solveRecursive(0, values);      // real, real
#endif
#else
    bool res = cs.solve(values);                         // real
#endif
    verif_observe(res);
    if (res) {
        CHECK((int)values.size() == nVars, "one value per variable");
        for (int i = 0; i < MAXV; i++) if (i < nVars) { verif_observe(valArr[i]); CHECK(in(D[i], valArr[i]), "returned value lies in the variable's domain"); }
        for (int k = 0; k < MAXC; k++) if (k < nConstr) CHECK(valArr[cv1[k]] <= valArr[cv2[k]] + cc[k], "returned assignment satisfies every constraint");
    } else {
        // exactness: no assignment at all satisfies the system (x universally quantified by the solver)
        int x[MAXV]; bool sat = true;
        for (int i = 0; i < MAXV; i++) { x[i] = nondet_int(); ASSUME(x[i] >= -16 && x[i] <= 47); if (i < nVars) sat = sat && in(D[i], x[i]); }
        for (int k = 0; k < MAXC; k++) if (k < nConstr) sat = sat && x[cv1[k]] <= x[cv2[k]] + cc[k];
        CHECK(!sat, "'unsolvable' only when no satisfying assignment exists");
    }
    END();
}

// ---- O4: the constraint-building API: addIneq / addEq record exactly the inequalities they are given (nothing dropped, nothing added), in the
//      normal form v1 <= v2 + c the two phases of solve() read; including relations of a variable with itself
void h_api(void) {
    CspSolver& cs = mkSolver(MAXV, 0);
    int v1 = nondet_int(), v2 = nondet_int(), offs = nondet_int(); bool ge = nondet_bool(), eq = nondet_bool();
    ASSUME(v1 >= 0 && v1 < MAXV && v2 >= 0 && v2 < MAXV && offs >= -70 && offs <= 70);
    if (eq) cs.addEq(v1, v2, offs);                        // real
    else cs.addIneq(v1, ge ? CspSolver::GE : CspSolver::LE, v2, offs);   // real
    int n = (int)cs.constr.size();
    verif_observe(n);
    CHECK(n == (eq ? 2 : 1), "one record per inequality, two per equality");
    // meaning of the records, checked on arbitrary values: all recorded v_a <= v_b + c hold  <=>  the stated relation holds
    int x[MAXV]; for (int i = 0; i < MAXV; i++) { x[i] = nondet_int(); ASSUME(x[i] >= -16 && x[i] <= 47); }
    bool rec = true;
    for (int k = 0; k < MAXC; k++) if (k < n) {
        const CspSolver::Constraint& c = conBox.c[k];
        CHECK(c.v1 >= 0 && c.v1 < MAXV && c.v2 >= 0 && c.v2 < MAXV, "recorded variable numbers in range");
        rec = rec && x[c.v1] <= x[c.v2] + c.c;
    }
    bool want = eq ? x[v1] == x[v2] + offs : ge ? x[v1] >= x[v2] + offs : x[v1] <= x[v2] + offs;
    CHECK(rec == want, "the recorded inequalities hold for an assignment exactly when the stated relation does");
    END();
}

} // extern "C"
