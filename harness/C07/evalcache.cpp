// C07 - "independently of what the evaluation caches hold": the score cache of Evaluate::evalPos.  Two positions that differ only in the half-move clock are
// evaluated one after the other through the SAME cache slot (any two keys may share a slot), then the second one again through a fresh slot:
//   the value obtained with the warm slot == the value obtained with the cold slot,
// i.e. the key the cache is addressed and tagged with (Position::historyHash) separates every two clocks whose half-move scaling (halfMoveFactor[clock/10]) differs.
// Real code under test: Evaluate::evalPos<false> (evaluate.cpp:73-118: tag test, contempt term, half-move scaling, tag store), Position::historyHash
// (position.hpp:304-315), the tables moveCntKeys[] and halfMoveFactor[] (run-time initialised, dumped natively), interpolate, clamp.
// Stubs: NNEvaluator::eval -> one arbitrary value per run (same board => same network output); Evaluate::materialScore -> one arbitrary value per run;
// Evaluate::getEvalHashEntry -> the slot chosen by the harness (index arithmetic = key mod 2^16 is not the subject); mhd->endGame = false (EndGameEval not entered).
#include "bitBoard.cpp"
#include "material.cpp"
#include "position.cpp"
#include "parameters.cpp"
#include "evaluate.cpp"
#include "verif.h"

int TBProbeData::maxPieces = 0;

static int gNN, gMtrl;
static Evaluate::EvalHashData slotWarm, slotCold; static Evaluate::EvalHashData* curSlot; static int lookups;
extern "C" int model_nnEval(NNEvaluator* self) { return gNN; }
extern "C" int model_materialScore(Evaluate* self, bool print) { return gMtrl; }
extern "C" Evaluate::EvalHashData* model_getEvalHashEntry(Evaluate* self, U64 key) { lookups++; return curSlot; }

static RawBox<Position> boxP;
static RawBox<Evaluate> boxE;
static Evaluate::MaterialHashData gMhd;

extern "C" void h_evalcache(void) {
    Position& pos = boxP.obj; PositionBase& s = (PositionBase&)pos;
    // the fields evalPos and historyHash read; the board itself only through these summaries
    s.hashKey = nondet_u64(); s.whiteMove = nondet_bool();
    s.wMtrl_ = nondet_int(); s.bMtrl_ = nondet_int(); s.wMtrlPawns_ = nondet_int(); s.bMtrlPawns_ = nondet_int();
    ASSUME(s.wMtrlPawns_ >= 0 && s.wMtrlPawns_ <= 8 * 200 && s.bMtrlPawns_ >= 0 && s.bMtrlPawns_ <= 8 * 200);
    ASSUME(s.wMtrl_ >= s.wMtrlPawns_ && s.wMtrl_ <= 20000 && s.bMtrl_ >= s.bMtrlPawns_ && s.bMtrl_ <= 20000);
    for (int q = 0; q < 13; q++) s.pieceTypeBB_[q] = nondet_u64();
    s.whiteBB_ = nondet_u64(); s.blackBB_ = nondet_u64();
    ASSUME((s.whiteBB_ & s.blackBB_) == 0);
    int men = (int)verif_param();                            // 0: more men than the tablebase limit (the usual case), 1: within it (per-clock keys)
    TBProbeData::maxPieces = men ? 64 : 0;
    int h1 = nondet_int(), h2 = nondet_int();
    ASSUME(h1 >= 0 && h1 <= 200 && h2 >= 0 && h2 <= 200);
    gNN = nondet_int(); gMtrl = nondet_int();
    ASSUME(gNN >= -20000 && gNN <= 20000 && gMtrl >= -5000 && gMtrl <= 5000);
    Evaluate& ev = boxE.obj;
    ev.posP = &pos; gMhd.endGame = false; ev.mhd = &gMhd;
    ev.whiteContempt = nondet_int(); ASSUME(ev.whiteContempt >= -2000 && ev.whiteContempt <= 2000);
    // warm slot: arbitrary older content, then position 1, then position 2
    slotWarm.data = nondet_u64(); slotCold.data = 0xffffffffffff0000ULL;
    curSlot = &slotWarm; lookups = 0;
    s.halfMoveClock = h1;
    U64 k1 = pos.historyHash();
    ASSUME((slotWarm.data ^ k1) >= (1 << 16));               // the older content belongs to some other position
    int r1 = ev.evalPos();                                   // real: miss, compute, store
    s.halfMoveClock = h2;
    U64 k2 = pos.historyHash();
    int rWarm = ev.evalPos();                                // real: hit or miss on what position 1 left behind
    curSlot = &slotCold;
    ASSUME((slotCold.data ^ k2) >= (1 << 16));               // (a key in the top 2^-48 of the key space would hit the initial tag)
    int rCold = ev.evalPos();                                // real: miss, from scratch
    verif_observe(r1); verif_observe(rWarm); verif_observe(rCold);
    CHECK(lookups == 3, "one cache look-up per evaluation");
    CHECK(rWarm == rCold, "the value through a slot warmed by the same position at another half-move clock equals the value from a cold slot");
    CHECK(rCold >= -(1 << 15) && rCold < (1 << 15), "score fits the 16-bit field of the cache entry");
    END();
}
