// C07 (extended) - colour-swap symmetry of one hand-mirrored end-game rule: EndGameEval::isBishopPawnDraw<white>(P) must
// equal isBishopPawnDraw<black>(colour-swapped P) for EVERY board.  The function is straight-line bitboard code, so the whole
// board is symbolic (64 squares with any piece code; one king each; no pawns on ranks 1/8).
// Real code under test: lib/texellib/endGameEval.cpp:587-720 (isBishopPawnDraw<true/false>).
#include "bitBoard.cpp"
#include "material.cpp"
#include "position.cpp"
#include "endGameEval.cpp"
#include "verif.h"
#include "models.h"

int pieceValue[Piece::nPieceTypes];
DEFINE_PARAM(pV); DEFINE_PARAM(nV); DEFINE_PARAM(bV); DEFINE_PARAM(rV); DEFINE_PARAM(qV); DEFINE_PARAM(kV);

static RawBox<Position> boxP, boxQ;
static int swapColour(int p) { return p == 0 ? 0 : (p <= 6 ? p + 6 : p - 6); }
static void fill(Position& pos, const int sq[64], bool wtm) {
    PositionBase& s = (PositionBase&)pos;
    for (int q = 0; q < 13; q++) s.pieceTypeBB_[q] = 0;
    s.whiteBB_ = s.blackBB_ = 0; s.wMtrl_ = s.bMtrl_ = 0; s.wMtrlPawns_ = s.bMtrlPawns_ = 0;
    for (int i = 0; i < 64; i++) {
        int p = sq[i]; s.squares[Square(i)] = p;
        for (int q = 1; q < 13; q++) if (p == q) s.pieceTypeBB_[q] |= 1ULL << i;
        if (p >= 1 && p <= 6) { s.whiteBB_ |= 1ULL << i; if (p != Piece::WKING) s.wMtrl_ += ::pieceValue[p]; if (p == Piece::WPAWN) s.wMtrlPawns_ += ::pieceValue[p]; }
        if (p >= 7) { s.blackBB_ |= 1ULL << i; if (p != Piece::BKING) s.bMtrl_ += ::pieceValue[p]; if (p == Piece::BPAWN) s.bMtrlPawns_ += ::pieceValue[p]; }
    }
    s.whiteMove = wtm; s.castleMask = 0; s.epSquare = Square(-1); s.halfMoveClock = 0; s.fullMoveCounter = 1; s.hashKey = 0; s.pHashKey = 0; s.matId.hash = 0;
    pos.nnEval = nullptr;
}

extern "C" void h_bishoppawn_sym(void) {
    ::pieceValue[Piece::WPAWN] = ::pieceValue[Piece::BPAWN] = pV; ::pieceValue[Piece::WKNIGHT] = ::pieceValue[Piece::BKNIGHT] = nV;
    ::pieceValue[Piece::WBISHOP] = ::pieceValue[Piece::BBISHOP] = bV; ::pieceValue[Piece::WROOK] = ::pieceValue[Piece::BROOK] = rV;
    ::pieceValue[Piece::WQUEEN] = ::pieceValue[Piece::BQUEEN] = qV; ::pieceValue[Piece::WKING] = ::pieceValue[Piece::BKING] = kV; ::pieceValue[0] = 0;
    int sq[64], sw[64]; int nwk = 0, nbk = 0;
    for (int i = 0; i < 64; i++) {
        int p = nondet_int(); ASSUME(p >= 0 && p <= 12);
        if (i < 8 || i >= 56) ASSUME(p != Piece::WPAWN && p != Piece::BPAWN);
        sq[i] = p; if (p == Piece::WKING) nwk++; if (p == Piece::BKING) nbk++;
    }
    ASSUME(nwk == 1 && nbk == 1);
    // the caller's precondition (endGameEval.cpp:424-431): the rule is consulted only for a side without queen, rook and knight
    for (int i = 0; i < 64; i++) ASSUME(sq[i] != Piece::WQUEEN && sq[i] != Piece::WROOK && sq[i] != Piece::WKNIGHT);
    bool wtm = nondet_bool();
    for (int i = 0; i < 64; i++) sw[i] = swapColour(sq[i ^ 56]);
    Position& P = boxP.obj; Position& Q = boxQ.obj;
    fill(P, sq, wtm); fill(Q, sw, !wtm);
    bool a = EndGameEval::isBishopPawnDraw<true>(P);     // real
    bool b = EndGameEval::isBishopPawnDraw<false>(Q);    // real
    verif_observe(a); verif_observe(b);
    CHECK(a == b, "isBishopPawnDraw<white>(P) == isBishopPawnDraw<black>(colour-swapped P)");
    END();
}

// left-right mirror symmetry (no castling rights are involved in this rule)
// ---- O4c: the hand-mirrored blocked-pawn draw rule of king+pawn v king+pawn (four copies: b/g file x white/black): left-right mirror and colour-swap symmetry
extern "C" void h_kpkp_sym(void) {
    int wk = nondet_int(), bk = nondet_int(), wp = nondet_int(), bp = nondet_int(), s0 = nondet_int();
    ASSUME(wk >= 0 && wk < 64 && bk >= 0 && bk < 64 && wp >= 8 && wp < 56 && bp >= 8 && bp < 56);
    ASSUME(s0 >= -32000 && s0 <= 32000);
    int sc = s0, scM = s0, scC = s0;
    bool r = EndGameEval::kpkpEval(Square(wk), Square(bk), Square(wp), Square(bp), sc);                              // real
    bool rM = EndGameEval::kpkpEval(Square(wk ^ 7), Square(bk ^ 7), Square(wp ^ 7), Square(bp ^ 7), scM);            // left-right mirrored
    bool rC = EndGameEval::kpkpEval(Square(bk ^ 56), Square(wk ^ 56), Square(bp ^ 56), Square(wp ^ 56), scC);        // colours swapped, board flipped
    verif_observe(r); verif_observe(sc);
    CHECK(r == rM && sc == scM, "kpkpEval(P) == kpkpEval(left-right mirrored P)");
    CHECK(r == rC && sc == scC, "kpkpEval(P) == kpkpEval(colour-swapped P): same verdict, score forced to 0 or left alone");
    if (r) CHECK(sc == 0, "a recognised fortress is scored 0"); else CHECK(sc == s0, "otherwise the score is left alone");
    END();
}

extern "C" void h_bishoppawn_mirror(void) {
    ::pieceValue[Piece::WPAWN] = ::pieceValue[Piece::BPAWN] = pV; ::pieceValue[Piece::WKNIGHT] = ::pieceValue[Piece::BKNIGHT] = nV;
    ::pieceValue[Piece::WBISHOP] = ::pieceValue[Piece::BBISHOP] = bV; ::pieceValue[Piece::WROOK] = ::pieceValue[Piece::BROOK] = rV;
    ::pieceValue[Piece::WQUEEN] = ::pieceValue[Piece::BQUEEN] = qV; ::pieceValue[Piece::WKING] = ::pieceValue[Piece::BKING] = kV; ::pieceValue[0] = 0;
    int sq[64], mi[64]; int nwk = 0, nbk = 0; bool anyWB = false;
    for (int i = 0; i < 64; i++) {
        int p = nondet_int(); ASSUME(p >= 0 && p <= 12);
        if (i < 8 || i >= 56) ASSUME(p != Piece::WPAWN && p != Piece::BPAWN);
        ASSUME(p != Piece::WQUEEN && p != Piece::WROOK && p != Piece::WKNIGHT);
        sq[i] = p; if (p == Piece::WKING) nwk++; if (p == Piece::BKING) nbk++; if (p == Piece::WBISHOP) anyWB = true;
    }
    ASSUME(nwk == 1 && nbk == 1);
    if (verif_param() == 0) ASSUME(anyWB);               // param 0: the side has at least one bishop; param 1: it has none
    else ASSUME(!anyWB);
    bool wtm = nondet_bool();
    for (int i = 0; i < 64; i++) mi[i] = sq[i ^ 7];
    Position& P = boxP.obj; Position& Q = boxQ.obj;
    fill(P, sq, wtm); fill(Q, mi, wtm);
    bool a = EndGameEval::isBishopPawnDraw<true>(P);     // real
    bool b = EndGameEval::isBishopPawnDraw<true>(Q);     // real
    verif_observe(a); verif_observe(b);
    CHECK(a == b, "isBishopPawnDraw(P) == isBishopPawnDraw(left-right mirrored P)");
    END();
}
