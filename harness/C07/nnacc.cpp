// C07 - incremental first-layer bookkeeping of the NN evaluator: one step of every operation from an arbitrary consistent
// state, for EVERY weight table (weights are symbolic), plus the index symmetries that make the network colour- and
// mirror-symmetric.
// Real code under test: lib/texellib/nn/nneval.{hpp,cpp}: NNEvaluator::setPiece/pushState/popState/forceFullEval/
// computeL1WB/computeL1Out, getIndex, ptValue; Position (connected board).
// Stubs: the vector kernels addSubWeights<256,20480> / copyVec<S16,256> / scaleClipPack are replaced by models that record
// WHICH weight rows are added / subtracted (signed list kept inside the accumulator storage, see below).  The accumulator
// equals "bias + sum of the rows of the board's features" for every possible weight table iff the recorded signed multiset of
// rows equals the multiset of the board's feature rows - and that is what is asserted, for a universally quantified row.
// Bound: the evaluator's state stack has 2*MAX_SEARCH_DEPTH levels (200 in the engine).  CBMC cannot digest the 230 KB object,
// so this unit is compiled with MAX_SEARCH_DEPTH = 2 (a 4-level stack); the code indexes the stack uniformly by stackTop and
// the harness exercises depths 0..2.  (The macro renames the engine's own constant while constants.hpp is read.)
#define MAX_SEARCH_DEPTH MAX_SEARCH_DEPTH_ENGINE
#include "constants.hpp"
#undef MAX_SEARCH_DEPTH
namespace SearchConst { const int MAX_SEARCH_DEPTH = 2; }
#include "bitBoard.cpp"
#include "material.cpp"
#include "position.cpp"
#include "moveGen.cpp"
#include "nneval.cpp"
#include "verif.h"
#include "models.h"

int pieceValue[Piece::nPieceTypes];
DEFINE_PARAM(kV);

#ifndef NMEN
#define NMEN 4
#endif
#include "../C01/oracle.h"

static const int NFEAT = 32 * 10 * 64;
// ---- abstraction of the accumulator contents.  The real code touches l1Out only through the two kernels below (and by whole
// struct copies in pushState).  "l1Out == bias + sum of the weight rows of multiset M, for EVERY weight table" is equivalent to
// "for every row f: (#times f was added) - (#times f was subtracted) since the last bias copy == multiplicity of f in M".
// The harness picks ONE row gF nondeterministically BEFORE running the code (the code cannot depend on it), the kernel models
// keep the net count of gF in lane 0 of l1Out (inside the real storage, so the real struct copies carry it), and the
// assertions are about that count: proved for the solver-chosen gF, they hold for all rows.
static int gF;
static bool idxOutOfRange;
typedef Vector<S16, 256> L1Vec;
typedef Matrix<S16, NFEAT, 256> W1Mat;
static int gCount(const L1Vec& v, int f) { return v(0); }            // (f is always gF)
extern "C" void model_addSubWeights(L1Vec& l1Out, const W1Mat& w, const int* toAdd, int toAddLen, const int* toSub, int toSubLen) {
    if (toAddLen < 0 || toAddLen > 32 || toSubLen < 0 || toSubLen > 32) { idxOutOfRange = true; return; }
    int d = 0;
    for (int k = 0; k < 32; k++) if (k < toAddLen) { int i = toAdd[k]; if (i < 0 || i >= NFEAT) idxOutOfRange = true; else if (i == gF) d++; }
    for (int k = 0; k < 32; k++) if (k < toSubLen) { int i = toSub[k]; if (i < 0 || i >= NFEAT) idxOutOfRange = true; else if (i == gF) d--; }
    l1Out(0) = (S16)(l1Out(0) + d);
}
extern "C" void model_copyVec(L1Vec& dst, const L1Vec& src) { dst(0) = 0; }          // accumulator := bias (no rows added)
static const void* clipSrc[2]; static S8* clipDst[2]; static int nclip;
extern "C" void model_scaleClipPack(S8* out, const L1Vec& in) { if (nclip < 2) { clipDst[nclip] = out; clipSrc[nclip] = &in; } nclip++; }

static RawBox<NNEvaluator> nnBox;
alignas(64) static unsigned char netmem[64];   // never read: the kernels that would read the network are modelled (only addresses are formed)
static NNEvaluator& rawNN() { return nnBox.obj; }
typedef NNEvaluator::FirstLayerState FLS;

// multiplicity of row f among the features of board b seen from perspective c with the king on kSq
static int boardCount(const Brd& b, int kSq, int c, int f) {
    int n = 0;
    for (int k = 2; k < NMEN; k++) { int p = b.men[k].p; if (p != 0 && getIndex(Square(kSq), NNEvaluator::ptValue[p], Square(b.men[k].s), c == 0) == f) n++; }
    return n;
}
static int queueCount(const FLS& s, int f) {
    int n = 0;
    for (int i = 0; i < 4; i++) { if (i < s.toAddLen && s.toAdd[i] == f) n++; if (i < s.toSubLen && s.toSub[i] == f) n--; }
    return n;
}
// the representation invariant of one perspective's state w.r.t. board b, for row f
static bool invAt(const FLS& s, const Brd& b, int c, int f) {
    int k = s.kingSqComputed.asInt();
    if (k < 0 || k > 63) return k == -1;                 // invalid state: nothing to satisfy
    if (s.toAddLen < 0 || s.toAddLen > 4 || s.toSubLen < 0 || s.toSubLen > 4) return false;
    return gCount(s.l1Out, f) + queueCount(s, f) == boardCount(b, k, c, f);
}
// an arbitrary state that satisfies the invariant for EVERY row, built constructively: arbitrary pending queues, and the
// accumulator list that makes up the difference to the board's features
static void symbolicState(FLS& s, const Brd& b, int c) {
    for (int i = 0; i < 4; i++) { s.toAdd[i] = nondet_int(); s.toSub[i] = nondet_int(); ASSUME(s.toAdd[i] >= 0 && s.toAdd[i] < NFEAT && s.toSub[i] >= 0 && s.toSub[i] < NFEAT); }
    s.toAddLen = nondet_int(); s.toSubLen = nondet_int();
    ASSUME(s.toAddLen >= 0 && s.toAddLen <= 4 && s.toSubLen >= 0 && s.toSubLen <= 4);
    int k = nondet_int(); ASSUME(k >= -1 && k < 64);
    s.kingSqComputed = Square(k);
    if (k >= 0) s.l1Out(0) = (S16)(boardCount(b, k, c, gF) - queueCount(s, gF));
    else { s.l1Out(0) = (S16)nondet_u16(); s.toAddLen = 0; s.toSubLen = 0; }
}
static int anyRow() { return gF; }

static Brd gB;
static int setupCommon(NNEvaluator& nn, Position*& posOut, int topMax) {
    bool wtm = nondet_bool();
    symbolicBoardAnyMover(gB, wtm);
    Position& pos = buildPos(gB);
    nn.posP = &pos; pos.nnEval = &nn;
    *reinterpret_cast<const void**>(reinterpret_cast<char*>(&nn.posP) + sizeof(void*)) = netmem;   // the reference member netData
    gF = nondet_int(); ASSUME(gF >= 0 && gF < NFEAT);
    // the stack depth is a per-query constant: CBMC 6.11 loses accesses through pointers whose SYMBOLIC offset lands inside the
    // nested flState[depth][colour] aggregate (see DESIGN.md, 'known CBMC defect'); the code indexes the stack uniformly
    int top = (int)verif_param(); ASSUME(top >= 0 && top <= topMax);
    nn.stack.stackTop = top;
    posOut = &pos; idxOutOfRange = false; nclip = 0;
    return top;
}

extern "C" {

// ---- index properties: range, injectivity, colour-swap and left-right mirror symmetry
void h_index(void) {
    int k = nondet_int(), pt = nondet_int(), sq = nondet_int(); bool white = nondet_bool();
    ASSUME(k >= 0 && k < 64 && pt >= 0 && pt <= 9 && sq >= 0 && sq < 64);
    int i = getIndex(Square(k), pt, Square(sq), white);                   // real
    verif_observe(i);
    CHECK(i >= 0 && i < NFEAT, "feature index within the weight table");
    // colour swap: flip ranks, swap piece colours, other perspective => same row
    int pt2 = pt >= 5 ? pt - 5 : pt + 5;
    CHECK(getIndex(Square(k ^ 56), pt2, Square(sq ^ 56), !white) == i, "colour-swap symmetry of the feature index");
    // left-right mirror of king and piece => same row
    CHECK(getIndex(Square(k ^ 7), pt, Square(sq ^ 7), white) == i, "left-right mirror symmetry of the feature index");
    // injective for a fixed king half-file class: two different (pt,sq) never share a row; different king buckets neither
    int k2 = nondet_int(), pt3 = nondet_int(), sq2 = nondet_int();
    ASSUME(k2 >= 0 && k2 < 64 && pt3 >= 0 && pt3 <= 9 && sq2 >= 0 && sq2 < 64);
    int j = getIndex(Square(k2), pt3, Square(sq2), white);
    bool sameBucket = ((k >> 3) == (k2 >> 3)) && (((k & 7) >= 4 ? 7 - (k & 7) : (k & 7)) == ((k2 & 7) >= 4 ? 7 - (k2 & 7) : (k2 & 7)));
    bool mirK = (k & 7) >= 4, mirK2 = (k2 & 7) >= 4;
    int nsq = mirK ? (sq ^ 7) : sq, nsq2 = mirK2 ? (sq2 ^ 7) : sq2;
    CHECK((i == j) == (sameBucket && pt == pt3 && nsq == nsq2), "feature index is injective up to the left-right king normalisation");
    // ptValue: the ten non-king piece codes map onto 0..9 with white below black
    int p = nondet_int(); ASSUME(p >= 1 && p <= 12 && p != Piece::WKING && p != Piece::BKING);
    int v = NNEvaluator::ptValue[p];
    CHECK(v >= 0 && v <= 9 && (Piece::isWhite(p) ? v < 5 : v >= 5), "piece type value range");
    int pOther = Piece::isWhite(p) ? Piece::makeBlack(p) : Piece::makeWhite(p);
    CHECK(NNEvaluator::ptValue[pOther] == (v >= 5 ? v - 5 : v + 5), "piece type value of the opposite colour");
    END();
}

// ---- setPiece: the queue update keeps the invariant (incl. the 5th pending change -> invalidate path)
void h_setpiece(void) {
    NNEvaluator& nn = rawNN(); Position* pos;
    int top = setupCommon(nn, pos, 2);
    FLS& s0 = nn.stack.flState[top][0]; FLS& s1 = nn.stack.flState[top][1];
    symbolicState(s0, gB, 0); symbolicState(s1, gB, 1);
    // the board change: man j (non-king) disappears / appears / changes kind on its square, as Position reports it
    int j = nondet_int(); ASSUME(j >= 2 && j < NMEN);
    int sq = gB.men[j].s, oldP = gB.men[j].p, newP = nondet_int();
    ASSUME(newP >= 0 && newP <= 12 && newP != Piece::WKING && newP != Piece::BKING && newP != oldP);
    bool kingCall = nondet_bool();       // Position also reports king moves; they must not touch the queues
    Brd nb = gB;
    if (kingCall) { bool w = nondet_bool(); nn.setPiece(Square(gB.men[w ? 0 : 1].s), w ? Piece::WKING : Piece::BKING, Piece::EMPTY); }   // real
    else { nb.men[j].p = newP; nn.setPiece(Square(sq), oldP, newP); }                                                             // real
    verif_observe(s0.toAddLen); verif_observe(s0.toSubLen); verif_observe(s1.toAddLen); verif_observe(s1.toSubLen);
    int f = anyRow();
    CHECK(invAt(s0, nb, 0, f), "white-perspective state consistent with the changed board");
    CHECK(invAt(s1, nb, 1, f), "black-perspective state consistent with the changed board");
    CHECK(nn.stack.stackTop == top, "stack depth unchanged");
    END();
}

// ---- computeL1WB: afterwards both perspectives hold the from-scratch value for the actual king squares, queues empty
void h_compute(void) {
    NNEvaluator& nn = rawNN(); Position* pos;
    int top = setupCommon(nn, pos, 2);
    FLS& s0 = nn.stack.flState[top][0]; FLS& s1 = nn.stack.flState[top][1];
    symbolicState(s0, gB, 0); symbolicState(s1, gB, 1);
    nn.computeL1WB();                                                     // real
    verif_observe((U64)(U16)s0.l1Out(0)); verif_observe((U64)(U16)s1.l1Out(0));
    int f = anyRow();
    CHECK(!idxOutOfRange, "all feature indices handed to the kernels are inside the weight table");
    CHECK(s0.kingSqComputed.asInt() == gB.men[0].s && s1.kingSqComputed.asInt() == gB.men[1].s, "states are for the actual king squares");
    CHECK(s0.toAddLen == 0 && s0.toSubLen == 0 && s1.toAddLen == 0 && s1.toSubLen == 0, "queues flushed");
    CHECK(gCount(s0.l1Out, f) == boardCount(gB, gB.men[0].s, 0, f), "white perspective equals the from-scratch accumulator");
    CHECK(gCount(s1.l1Out, f) == boardCount(gB, gB.men[1].s, 1, f), "black perspective equals the from-scratch accumulator");
    END();
}

// ---- pushState / popState / forceFullEval
void h_pushpop(void) {
    NNEvaluator& nn = rawNN(); Position* pos;
    int top = setupCommon(nn, pos, 2);
    FLS& s0 = nn.stack.flState[top][0]; FLS& s1 = nn.stack.flState[top][1];
    symbolicState(s0, gB, 0); symbolicState(s1, gB, 1);
    int which = nondet_int(); ASSUME(which >= 0 && which <= 2);
    int f = anyRow();
    if (which == 0) {
        nn.pushState();                                                   // real
        CHECK(!idxOutOfRange, "indices in range");
        CHECK(nn.stack.stackTop == top + 1, "push increments the depth");
        FLS& n0 = nn.stack.flState[top + 1][0]; FLS& n1 = nn.stack.flState[top + 1][1];
        CHECK(invAt(n0, gB, 0, f) && invAt(n1, gB, 1, f), "the new top is consistent with the (unchanged) board");
        CHECK(invAt(s0, gB, 0, f) && invAt(s1, gB, 1, f), "the saved level stays consistent with the board it was saved for");
        CHECK(n0.toAddLen == s0.toAddLen && n0.toSubLen == s0.toSubLen && n0.kingSqComputed == s0.kingSqComputed && gCount(n0.l1Out, f) == gCount(s0.l1Out, f), "new top is a copy (white)");
        CHECK(n1.toAddLen == s1.toAddLen && n1.toSubLen == s1.toSubLen && n1.kingSqComputed == s1.kingSqComputed && gCount(n1.l1Out, f) == gCount(s1.l1Out, f), "new top is a copy (black)");
    } else if (which == 1) {
        // remember the level below
        FLS below0, below1;
        if (top > 0) { below0 = nn.stack.flState[top - 1][0]; below1 = nn.stack.flState[top - 1][1]; }
        nn.popState();                                                    // real
        if (top > 0) {
            CHECK(nn.stack.stackTop == top - 1, "pop decrements the depth");
            FLS& p0 = nn.stack.flState[top - 1][0]; FLS& p1 = nn.stack.flState[top - 1][1];
            CHECK(gCount(p0.l1Out, f) == gCount(below0.l1Out, f) && p0.toAddLen == below0.toAddLen && p0.toSubLen == below0.toSubLen && p0.kingSqComputed == below0.kingSqComputed, "pop does not alter the restored level (white)");
            CHECK(gCount(p1.l1Out, f) == gCount(below1.l1Out, f) && p1.toAddLen == below1.toAddLen && p1.toSubLen == below1.toSubLen && p1.kingSqComputed == below1.kingSqComputed, "pop does not alter the restored level (black)");
        } else {
            CHECK(nn.stack.stackTop == 0, "underflow keeps depth 0");
            CHECK(!nn.stack.flState[0][0].kingSqComputed.isValid() && !nn.stack.flState[0][1].kingSqComputed.isValid(), "stack underflow (e.g. after position assignment) forces a full refresh");
        }
    } else {
        bool clearStack = nondet_bool();
        nn.forceFullEval(clearStack);                                     // real
        int t2 = nn.stack.stackTop;
        CHECK(t2 == (clearStack ? 0 : top), "forceFullEval depth");
        CHECK(!nn.stack.flState[t2][0].kingSqComputed.isValid() && !nn.stack.flState[t2][1].kingSqComputed.isValid(), "forceFullEval invalidates both perspectives");
        CHECK(nn.stack.flState[t2][0].toAddLen == 0 && nn.stack.flState[t2][0].toSubLen == 0 && nn.stack.flState[t2][1].toAddLen == 0 && nn.stack.flState[t2][1].toSubLen == 0, "queues cleared");
    }
    END();
}

// ---- computeL1Out: the side to move's accumulator comes first
void h_l1out(void) {
    NNEvaluator& nn = rawNN(); Position* pos;
    int top = setupCommon(nn, pos, 2);
    nn.computeL1Out();                                                    // real (scaleClipPack recorded)
    verif_observe(nclip);
    CHECK(nclip == 2, "two halves written");
    const void* own = &nn.stack.flState[top][gB.wtm ? 0 : 1].l1Out; const void* opp = &nn.stack.flState[top][gB.wtm ? 1 : 0].l1Out;
    CHECK(clipSrc[0] == own && clipSrc[1] == opp, "first half = side to move's perspective, second half = opponent's");
    CHECK(clipDst[0] == &nn.l1OutClipped(0) && clipDst[1] == &nn.l1OutClipped(256), "halves land at offsets 0 and n1");
    END();
}

} // extern "C"
