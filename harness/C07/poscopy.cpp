// C07 - "after any history of ... position copies": every way of overwriting a Position that an evaluator is connected to (copy-assignment, move-assignment,
// deSerialize) hands the evaluator a board it has not seen square by square, so it must be told to recompute from scratch:
//   exactly the PositionBase part is replaced, the connection is kept, and NNEvaluator::forceFullEval is called on the connected evaluator.
// Real code under test: Position::operator=(const Position&), Position::operator=(Position&&), Position::forceFullEval (position.cpp:80-92, position.hpp).
// Stub: NNEvaluator::forceFullEval -> recorder (its own effect - both perspectives invalidated, stack depth reset - is C07 O1-pushpop).
#include "bitBoard.cpp"
#include "material.cpp"
#include "position.cpp"
#include "verif.h"

int pieceValue[Piece::nPieceTypes];
DEFINE_PARAM(kV);

static int forceCalls; static NNEvaluator* forcedOn;
extern "C" void model_forceFullEval(NNEvaluator* self, bool flag) { forceCalls++; forcedOn = self; }

static RawBox<Position> boxA, boxB;
static char evalObject[64];

static void arbitrary(PositionBase& s) {
    s.wMtrl_ = nondet_int(); s.bMtrl_ = nondet_int(); s.wMtrlPawns_ = nondet_int(); s.bMtrlPawns_ = nondet_int();
    for (int i = 0; i < 64; i++) s.squares[Square(i)] = nondet_int();
    for (int q = 0; q < 13; q++) s.pieceTypeBB_[q] = nondet_u64();
    s.whiteBB_ = nondet_u64(); s.blackBB_ = nondet_u64(); s.whiteMove = nondet_bool(); s.halfMoveClock = nondet_int(); s.fullMoveCounter = nondet_int();
    s.castleMask = nondet_int(); s.epSquare = Square(nondet_int()); s.hashKey = nondet_u64(); s.pHashKey = nondet_u64(); s.matId.hash = nondet_int();
}
static bool sameBase(const PositionBase& a, const PositionBase& b) {
    bool same = a.wMtrl_ == b.wMtrl_ && a.bMtrl_ == b.bMtrl_ && a.wMtrlPawns_ == b.wMtrlPawns_ && a.bMtrlPawns_ == b.bMtrlPawns_ && a.whiteBB_ == b.whiteBB_ && a.blackBB_ == b.blackBB_ &&
                a.whiteMove == b.whiteMove && a.halfMoveClock == b.halfMoveClock && a.fullMoveCounter == b.fullMoveCounter && a.castleMask == b.castleMask && a.epSquare == b.epSquare &&
                a.hashKey == b.hashKey && a.pHashKey == b.pHashKey && a.matId.hash == b.matId.hash;
    for (int i = 0; i < 64; i++) same = same && a.squares[Square(i)] == b.squares[Square(i)];
    for (int q = 0; q < 13; q++) same = same && a.pieceTypeBB_[q] == b.pieceTypeBB_[q];
    return same;
}

extern "C" void h_poscopy(void) {
    Position& a = boxA.obj; Position& b = boxB.obj;
    arbitrary((PositionBase&)a); arbitrary((PositionBase&)b);
    NNEvaluator* ev = (NNEvaluator*)evalObject;
    a.nnEval = ev; b.nnEval = nullptr;                   // the target is connected to an evaluator, the source is not
    forceCalls = 0; forcedOn = nullptr;
    if (verif_param() == 0) a = b;                       // real copy-assignment
    else a = static_cast<Position&&>(b);                 // real move-assignment
    verif_observe(forceCalls);
    CHECK(sameBase((PositionBase&)a, (PositionBase&)b), "the whole position state is copied");
    CHECK(a.nnEval == ev && b.nnEval == nullptr, "the evaluator stays connected to the target, none is connected to the source");
    CHECK(forceCalls == 1 && forcedOn == ev, "the connected evaluator is told to recompute from scratch, once");
    END();
}
