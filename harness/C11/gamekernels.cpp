// C11 (extended) - numeric kernels of the console game adjudication.
// Real code under test: lib/texellib/game.cpp (Game::insufficientMaterial), lib/texellib/position.hpp
// (Position::drawRuleEquals, used by Game::handleDrawCmd to validate "draw rep" claims).
// The command handling around them (std::string parsing, move list replay, players) is outside the claim.
#include "bitBoard.cpp"
#include "game.cpp"
#include "verif.h"

alignas(64) static unsigned char gmem[sizeof(Game)];
alignas(64) static unsigned char pmemA[sizeof(Position)];
alignas(64) static unsigned char pmemB[sizeof(Position)];

extern "C" {

// ---- O4: "draw by impossibility of checkmate" is reported exactly for K v K, K+minor v K, and any number of bishops
//      that all stand on squares of one colour (no other material), for every board
void h_insufficient(void) {
    Game& g = *reinterpret_cast<Game*>(gmem);
    int board[64];
    for (int p = 0; p < Piece::nPieceTypes; p++) g.pos.pieceTypeBB_[p] = 0;
    for (int s = 0; s < 64; s++) {
        int pc = nondet_u8();
        ASSUME(pc >= 0 && pc <= 12);
        board[s] = pc;
        g.pos.pieceTypeBB_[pc] |= 1ULL << s;     // state built directly from the mailbox, as setPiece maintains it
    }
    bool r = g.insufficientMaterial();            // real
    verif_observe(r);
    // naive specification on the mailbox
    int heavy = 0, knights = 0, bishopsDark = 0, bishopsLight = 0;
    for (int s = 0; s < 64; s++) {
        int pc = board[s], x = s & 7, y = s >> 3;
        if (pc == Piece::WQUEEN || pc == Piece::BQUEEN || pc == Piece::WROOK || pc == Piece::BROOK || pc == Piece::WPAWN || pc == Piece::BPAWN) heavy++;
        if (pc == Piece::WKNIGHT || pc == Piece::BKNIGHT) knights++;
        if (pc == Piece::WBISHOP || pc == Piece::BBISHOP) { if (((x + y) & 1) == 0) bishopsDark++; else bishopsLight++; }   // a1 is dark
    }
    bool dead = heavy == 0 && (knights + bishopsDark + bishopsLight <= 1 || (knights == 0 && (bishopsDark == 0 || bishopsLight == 0)));
    CHECK(r == dead, "insufficientMaterial <=> no queen/rook/pawn and (at most one minor piece, or only bishops of one square colour)");
    END();
}

// ---- O5: positions count as equal for the repetition rule iff board, side to move, castling rights and en-passant
//      square agree; clocks, move numbers and cached keys play no role
void h_drawrule_equals(void) {
    Position& a = *reinterpret_cast<Position*>(pmemA);
    Position& b = *reinterpret_cast<Position*>(pmemB);
    bool same = true;
    for (int s = 0; s < 64; s++) {
        int pa = nondet_u8(), pb = nondet_u8();
        ASSUME(pa <= 12 && pb <= 12);
        a.squares[Square(s)] = pa; b.squares[Square(s)] = pb;
        if (pa != pb) same = false;
    }
    a.whiteMove = nondet_bool(); b.whiteMove = nondet_bool();
    a.castleMask = nondet_int(); b.castleMask = nondet_int();
    a.epSquare = Square(nondet_int()); b.epSquare = Square(nondet_int());
    a.halfMoveClock = nondet_int(); b.halfMoveClock = nondet_int();
    a.fullMoveCounter = nondet_int(); b.fullMoveCounter = nondet_int();
    a.hashKey = nondet_u64(); b.hashKey = nondet_u64();
    if (a.whiteMove != b.whiteMove || a.castleMask != b.castleMask || a.epSquare.asInt() != b.epSquare.asInt()) same = false;
    bool r = a.drawRuleEquals(b);                 // real
    verif_observe(r);
    CHECK(r == same, "drawRuleEquals <=> same board, side to move, castling rights, en-passant square");
    CHECK(b.drawRuleEquals(a) == r, "symmetric");
    END();
}

} // extern "C"
