// C11-O3 - EngineControl::setupPosition builds the repetition history from 'position ... moves ...'.
// Real code under test: app/texel/enginecontrol.cpp:513-531 (setupPosition), libstdc++ std::vector<U64>
// (clear / push_back with heap growth / resize), Position copy construction and assignment.
// Position::makeMove is replaced by a contract model (see model_makeMove): its real behaviour is the subject of C02.
// Which moves reset the clock is a case split of the driver (all 2^n patterns are run), not a solver variable.
#include "position.cpp"
#include "enginecontrol.cpp"
int TBProbeData::maxPieces = 4;   // environment (defined in tbprobe.cpp, which is not part of this unit): largest tablebase size
#include "verif.h"

#ifndef MAXM
#define MAXM 6             // longest move list
#endif

// EngineControl object without running its constructor (threads, tables, listeners): a union member is not constructed.
// (A typed object rather than raw bytes, so that the solver front end can track the vector's three pointers exactly.)
union ECStore { EngineControl ec; ECStore() {} ~ECStore() {} };
static ECStore ecStore;
union PosStore { Position p; PosStore() {} ~PosStore() {} };
static PosStore posStore;           // start position, same technique
alignas(16) static unsigned char movesmem[sizeof(std::vector<Move>)];
alignas(8)  static unsigned char moveArr[(MAXM + 1) * sizeof(Move)];

// ---- stub (part of the claim): Position::makeMove as its contract w.r.t. the two attributes setupPosition looks at:
//      the position gets a new (arbitrary) hash key; the half-move clock is reset to 0 by a capture or pawn move
//      and incremented otherwise.  The new key is chosen by the solver per move; which of the two clock updates happens is the
//      per-query pattern.
static U64 nextHash[MAXM + 1];
static bool zeroing[MAXM + 1];
static int nMade, clockNow;    // clockNow: the clock the position handed to makeMove must carry (checked), kept separately
                               // so that the value written back is a constant for the symbolic-execution front end
extern "C" void model_makeMove(Position* p, const Move& m, UndoInfo& ui) {
    CHECK(p->halfMoveClock == clockNow, "makeMove is applied to the position produced by the previous move (clock intact)");
    ui.halfMoveClock = clockNow;
    p->hashKey = nextHash[nMade];
    clockNow = zeroing[nMade] ? 0 : clockNow + 1;
    p->halfMoveClock = clockNow;
    p->whiteMove = !p->whiteMove;
    nMade++;
}

extern "C" {

void h_setup(void) {
    EngineControl& ec = ecStore.ec;
    Position& pos0 = posStore.p;
    std::vector<Move>& moves = *reinterpret_cast<std::vector<Move>*>(movesmem);
    // case split: number of moves after the start position, which of them are captures/pawn moves, and whether the
    // engine already owns a history block (so every vector size/capacity on the path is concrete; the keys are not)
    unsigned par = verif_param();
    int n = (int)(par & 127); bool hadBlock = (par >> 7) & 1; int oldN = (int)((par >> 8) & 3);
    int hc = (int)((par >> 10) & 255); bool single = (par >> 18) & 1; unsigned pattern = (par >> 19) & 0xfff;
    // pattern: bit k set = move k is a capture/pawn move (n <= 12); "single" form for long games: only move number
    // `pattern` (if < n) is one
    ASSUME(n >= 0 && n <= MAXM);
    // clock of the start position (FEN field): symbolic when the first move resets it anyway; otherwise a per-query constant
    // (setupPosition looks at it only through "clock == 0 after makeMove", and a symbolic value there makes every later
    // vector size symbolic for the symbolic-execution front end)
    int hmc0 = hc ? hc - 1 : nondet_int();
    ASSUME(hmc0 >= 0 && hmc0 <= 1000);
    U64 hashSeq[MAXM + 1];                      // hashSeq[k] = key of the position after k moves
    hashSeq[0] = nondet_u64();
    for (int k = 0; k < MAXM; k++) { nextHash[k] = nondet_u64(); zeroing[k] = single ? (unsigned)k == pattern : (k < 12 && ((pattern >> k) & 1)); hashSeq[k + 1] = nextHash[k]; }
    nMade = 0; clockNow = hmc0;
    pos0.hashKey = hashSeq[0]; pos0.halfMoveClock = hmc0; pos0.whiteMove = nondet_bool();
    pointVec(moves, reinterpret_cast<Move*>(moveArr), n, MAXM + 1);
    // engine state before the command: no history storage yet, or a 3-word heap block with oldN used entries (arbitrary keys)
    if (hadBlock) {
        U64* old = static_cast<U64*>(::operator new(3 * sizeof(U64)));
        for (int i = 0; i < 3; i++) old[i] = nondet_u64();
        pointVec(ec.posHashList, old, oldN, 3);
    } else {
        ec.posHashList._M_impl._M_start = ec.posHashList._M_impl._M_finish = ec.posHashList._M_impl._M_end_of_storage = nullptr;
    }
    ec.posHashListSize = nondet_int();

    ec.setupPosition(pos0, moves);              // real

    // specification: history = positions since the last capture/pawn move (or since the start position), excluding
    // the final position; dropped altogether if it has more than 100 entries
    int first = 0;                              // index of the first position of the reversible tail
    for (int k = 0; k < n; k++) if (zeroing[k]) first = k + 1;
    int want = n - first;
    if (want > 100) want = 0;
    CHECK(nMade == n, "every move made exactly once");
    CHECK(ec.posHashListSize == want, "posHashListSize == number of positions since the last irreversible move");
    CHECK((int)ec.posHashList.size() == want + 2 * SearchConst::MAX_SEARCH_DEPTH, "room for the search path behind the history");
    for (int i = 0; i < MAXM; i++)
        if (i < want) CHECK(ec.posHashList[i] == hashSeq[first + i], "history entry i == key of the i-th position since the last irreversible move");
    CHECK(ec.pos.hashKey == hashSeq[n], "engine position == position after all moves");
    int hmcWant = first == 0 ? hmc0 + n : n - first;
    CHECK(ec.pos.halfMoveClock == hmcWant, "engine position carries the final half-move clock");
    CHECK(ec.posHashListSize <= ec.pos.halfMoveClock || want == 0, "history never longer than the reversible window");
    verif_observe(ec.posHashListSize); verif_observe(ec.posHashList.size());
    for (int i = 0; i < MAXM; i++) if (i < want) verif_observe(ec.posHashList[i]);
    END();
}

} // extern "C"
