// C11 - draws by repetition and the 50-move rule: the two decision kernels of the search.
// Real code under test: lib/texellib/search.hpp (Search::canClaimDrawRep, Search::canClaimDraw50; both static, inline),
//                       lib/texellib/position.hpp (Position::zobristHash, Position::getHalfMoveClock).
#include "search.hpp"
#include "verif.h"
#include <cstdlib>

#ifndef MAXL
#define MAXL 24            // longest used part of posHashList (plies of history + search path)
#endif
#define PAD 4              // unconstrained words in front of the list (reads at index < 0 would land here)
#define SLACK 6            // unconstrained words behind the used part (the real vector is longer than posHashListSize)

alignas(64) static unsigned char posmem[sizeof(Position)];
alignas(16) static unsigned char vecmem[sizeof(std::vector<U64>)];
static U64 store[PAD + MAXL + SLACK];

// Specification oracle (naive restatement of the rule, not of the loop):
// list[size-k] is the position k plies before the current one; it can only be a repetition of the current
// position if no irreversible move lies between, i.e. k <= halfMoveClock ("reversible window").
//   occAll  = number of earlier occurrences of the current hash inside the window
//   occTree = those of them that were reached inside the search tree (index >= firstNew)
// Draw score <=> occTree >= 1 (a repetition the search itself walked into) or occAll >= 2 (third occurrence).
struct Occ { int all, tree; };
static Occ count(const U64* list, int size, int hmc, int firstNew, U64 h) {
    Occ o = {0, 0};
    for (int i = 0; i < size; i++) {
        int k = size - i;                       // distance in plies
        if (k <= hmc && list[i] == h) { o.all++; if (i >= firstNew) o.tree++; }
    }
    return o;
}
// What chess guarantees about the hash list, restricted to the reversible window: a position at odd distance has the
// other side to move, and nothing can be undone in two plies, so neither equals the current position (hash collisions
// between different positions are outside the claim).
static void assumeChess(const U64* list, int size, int hmc, U64 h) {
    for (int i = 0; i < size; i++) {
        int k = size - i;
        if (k <= hmc && ((k & 1) != 0 || k == 2)) ASSUME(list[i] != h);
    }
}

extern "C" {

// ---- O1: canClaimDrawRep == specification, result independent of everything outside list[0,size)
void h_rep(void) {
    Position& pos = *reinterpret_cast<Position*>(posmem);
    std::vector<U64>& v = *reinterpret_cast<std::vector<U64>*>(vecmem);
    int size = (int)verif_param();              // case split: one query per list length
    int hmc = nondet_int(), firstNew = nondet_int();
    U64 h = nondet_u64();
    ASSUME(size >= 0 && size <= MAXL);
    ASSUME(hmc >= 0 && hmc <= 1000000);
    for (int i = 0; i < PAD + MAXL + SLACK; i++) store[i] = nondet_u64();   // incl. the words outside [0,size): arbitrary
    U64* list = store + PAD;
    assumeChess(list, size, hmc, h);
    pointVec(v, list, MAXL + SLACK, MAXL + SLACK);
    pos.halfMoveClock = hmc; pos.hashKey = h;
    bool r = Search::canClaimDrawRep(pos, v, size, firstNew);               // real
    verif_observe(r);
    Occ o = count(list, size, hmc, firstNew, h);
    if (o.all >= 2) CHECK(r, "(a) third occurrence inside the reversible window => draw");
    if (o.tree >= 1) CHECK(r, "(b) repetition of a position reached inside the search tree => draw");
    if (r) CHECK(o.all >= 1, "(c) draw => some earlier occurrence inside the reversible window");
    if (r && o.tree == 0) CHECK(o.all >= 2, "(c') draw with all occurrences played over the board => at least two of them");
    CHECK(r == (o.tree >= 1 || o.all >= 2), "result == specification (depends on list[0,size) only)");
    END();
}

// ---- O1b: the same without any assumption on the list: only positions with the same side to move (even distance) at
//      least four plies back can repeat the current one, so an equal word at an odd distance or two plies back (which
//      could only be a hash collision) must not count.
void h_rep_strict(void) {
    Position& pos = *reinterpret_cast<Position*>(posmem);
    std::vector<U64>& v = *reinterpret_cast<std::vector<U64>*>(vecmem);
    int size = (int)verif_param();              // case split: one query per list length
    int hmc = nondet_int(), firstNew = nondet_int();
    U64 h = nondet_u64();
    ASSUME(size >= 0 && size <= MAXL);
    ASSUME(hmc >= 0 && hmc <= 1000000);
    for (int i = 0; i < PAD + MAXL + SLACK; i++) store[i] = nondet_u64();
    U64* list = store + PAD;
    pointVec(v, list, MAXL + SLACK, MAXL + SLACK);
    pos.halfMoveClock = hmc; pos.hashKey = h;
    bool r = Search::canClaimDrawRep(pos, v, size, firstNew);               // real
    verif_observe(r);
    int all = 0, tree = 0;
    for (int k = 4; k <= size; k += 2)          // k = distance in plies
        if (k <= hmc && list[size - k] == h) { all++; if (size - k >= firstNew) tree++; }
    CHECK(r == (tree >= 1 || all >= 2), "result == specification over same-side-to-move positions >= 4 plies back");
    END();
}

// ---- O1d: memory level: the list object has exactly `size` elements, so CBMC's pointer checks prove every index
//      read lies in [0,size) (no chess assumptions needed for this).
void h_rep_mem(void) {
    Position& pos = *reinterpret_cast<Position*>(posmem);
    std::vector<U64>& v = *reinterpret_cast<std::vector<U64>*>(vecmem);
    int size = (int)verif_param();              // case split: one query per list length
    int hmc = nondet_int(), firstNew = nondet_int();
    U64 h = nondet_u64();
    ASSUME(size >= 0 && size <= MAXL);
    ASSUME(hmc >= 0 && hmc <= 1000000);
    U64* list = static_cast<U64*>(malloc(sizeof(U64) * size));
    for (int i = 0; i < size; i++) list[i] = nondet_u64();
    pointVec(v, list, size, size);
    pos.halfMoveClock = hmc; pos.hashKey = h;
    bool r = Search::canClaimDrawRep(pos, v, size, firstNew);               // real
    verif_observe(r);
    if (size < 4 || hmc < 4) CHECK(!r, "fewer than four reversible plies of history => no repetition");
    END();
}

// ---- O2: canClaimDraw50 <=> 50 moves by each side (100 plies) without capture or pawn move
void h_draw50(void) {
    Position& pos = *reinterpret_cast<Position*>(posmem);
    int hmc = nondet_int();
    pos.halfMoveClock = hmc;
    bool r = Search::canClaimDraw50(pos);                                   // real
    verif_observe(r);
    CHECK(r == (hmc >= 100), "50-move draw <=> halfMoveClock >= 100");
    END();
}

} // extern "C"
