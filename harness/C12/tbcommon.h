// C12 shared harness helpers: material-class enumeration, naive board symmetries, naive placement type.
#ifndef C12_TBCOMMON_H
#define C12_TBCOMMON_H

// ---- the 45 pawnless material classes with <= 4 men: 0 = KK, 1..8 = one extra piece, 9..44 = two extra pieces.
// Extra-piece kinds 0..7 = wq wr wb wn bq br bb bn.
static const int N_CLASSES = 45;
static void addKind(PieceCount& pc, int k) {
    switch (k) {
    case 0: pc.nwq++; break; case 1: pc.nwr++; break; case 2: pc.nwb++; break; case 3: pc.nwn++; break;
    case 4: pc.nbq++; break; case 5: pc.nbr++; break; case 6: pc.nbb++; break; default: pc.nbn++; break;
    }
}
static void classPC(int c, PieceCount& pc) {
    pc.nwq = pc.nwr = pc.nwb = pc.nwn = pc.nbq = pc.nbr = pc.nbb = pc.nbn = 0;
    if (c == 0) return;
    if (c <= 8) { addKind(pc, c - 1); return; }
    int k = 9;
    for (int a = 0; a < 8; a++)
        for (int b = a; b < 8; b++, k++)
            if (k == c) { addKind(pc, a); addKind(pc, b); return; }
}
static int classMen(int c) { return c == 0 ? 2 : c <= 8 ? 3 : 4; }
// Piece code (Piece::Type) of extra-piece kind k, written out from the enum.
static int kindPiece(int k) {
    switch (k) {
    case 0: return Piece::WQUEEN; case 1: return Piece::WROOK; case 2: return Piece::WBISHOP; case 3: return Piece::WKNIGHT;
    case 4: return Piece::BQUEEN; case 5: return Piece::BROOK; case 6: return Piece::BBISHOP; default: return Piece::BKNIGHT;
    }
}

// ---- the 8 symmetries of the (pawnless) board on (file,rank) coordinates, written out one by one
static int symApply(int g, int sq) {
    int x = sq & 7, y = sq >> 3, nx, ny;
    switch (g) {
    case 0: nx = x;     ny = y;     break;   // identity
    case 1: nx = 7 - x; ny = y;     break;   // left-right mirror
    case 2: nx = x;     ny = 7 - y; break;   // top-bottom mirror
    case 3: nx = 7 - x; ny = 7 - y; break;   // rotate 180
    case 4: nx = y;     ny = x;     break;   // mirror in a1-h8
    case 5: nx = 7 - y; ny = x;     break;   // rotate
    case 6: nx = y;     ny = 7 - x; break;   // rotate
    default: nx = 7 - y; ny = 7 - x; break;  // mirror in a8-h1
    }
    return ny * 8 + nx;
}
// a1-d1-d4 triangle: file a..d, rank not above the file
static bool inTriangle(int sq) { int x = sq & 7, y = sq >> 3; return x <= 3 && y <= x; }

#endif
