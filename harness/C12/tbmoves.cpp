// C12-O3 (extended) - forward/backward move consistency of the generator's move and un-move generation on indices:
// the retrograde algorithm is sound only if every position reached by a move lists the origin among its un-moves.
// Real code under test: lib/texellib/tb/tbgen.cpp: TBPosition::getMoves, getUnMoves, canTakeKing, getOccupied, indexValid.
// Restricted to material classes without sliding pieces (king/knight attack tables only).
#include "bitBoard.cpp"
#include "tbgen.cpp"
#include "verif.h"
#include "C12/tbcommon.h"
#include "C12/models.h"

// TbMoveList::sort -> no-op: the generator only uses the lists as sets (duplicates are skipped after sorting)
extern "C" void model_sort(TbMoveList* self) { }

extern "C" void h_moves(void) {
    PieceCount pc; classPC((int)verif_param(), pc);
    TBPosition tp(pc);
    U32 i = nondet_u32();
    ASSUME(i < tp.nPositions());
    tp.setIndex(i);
    ASSUME(tp.indexValid());                             // the generator only expands valid indices ...
    tp.setIndex(i);
    ASSUME(!tp.canTakeKing());                           // ... in which the side to move cannot take the king
    TbMoveList fw;
    tp.getMoves(fw);                                     // real
    verif_observe((U64)fw.getSize());
    CHECK(fw.getSize() >= 0 && fw.getSize() <= 256, "move list fits its buffer");
    int k = nondet_int(); ASSUME(k >= 0 && k < fw.getSize());
    U32 j = fw[k];
    verif_observe(j);
    CHECK(j < tp.nPositions(), "move target index below nPositions");
    tp.setIndex(j);
    CHECK(tp.indexValid(), "move target is a valid (canonical, legal arrangement) index");
    tp.setIndex(j);
    CHECK(tp.currIdx.whiteMove() != ((i >> (6 * (pc.nPieces() - 1))) & 1), "side to move flipped");
    TbMoveList bw;
    tp.getUnMoves(bw);                                   // real
    CHECK(bw.getSize() >= 0 && bw.getSize() <= 256, "un-move list fits its buffer");
    bool found = false;
    for (int m = 0; m < bw.getSize(); m++) if (bw[m] == i) found = true;
    CHECK(found, "the origin index is among the un-moves of the move target");
    END();
}
