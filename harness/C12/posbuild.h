// C12: symbolic <=5-man Position built directly in typed static storage + the coverage spec (shared by tbpos.cpp / tbinstall.cpp)
#ifndef C12_POSBUILD_H
#define C12_POSBUILD_H
#include <new>
#include <cstring>
// ---- a Position built directly in its storage from up to 5 symbolic men (both kings always present) ----
// Typed storage without running Position's constructor (the union member is never constructed).
union PosBox { Position pos; PosBox() {} ~PosBox() {} };
static PosBox posBox;
static const int MAXMEN = 5;
struct Men { int n; bool present[MAXMEN]; int piece[MAXMEN]; int sq[MAXMEN]; bool wtm; int castle; };

// Slots 0/1 are the kings (always present); slots 2..2+maxExtra-1 hold optional non-king men (present flags monotone).
static Position& buildPosition(Men& m, int maxExtra) {
    Position& pos = posBox.pos;
    m.n = 0;
    for (int k = 0; k < MAXMEN; k++) {
        bool pr = k < 2;
        int pc = k == 0 ? Piece::WKING : Piece::BKING;
        if (k >= 2 && k < 2 + maxExtra) {
            pr = nondet_bool();
            pc = nondet_int();
            ASSUME(pc >= Piece::WQUEEN && pc <= Piece::BPAWN && pc != Piece::BKING);   // any non-king piece, pawns included
            if (k > 2) ASSUME(!pr || m.present[k - 1]);
        }
        int s = nondet_int(); ASSUME(s >= 0 && s < 64);
        if (k >= 2 + maxExtra) { pr = false; pc = 0; s = 0; }
        if (pr) for (int j = 0; j < k; j++) ASSUME(!m.present[j] || m.sq[j] != s);
        m.present[k] = pr; m.piece[k] = pr ? pc : 0; m.sq[k] = s;
        if (pr) m.n++;
    }
    m.wtm = nondet_bool();
    m.castle = nondet_int(); ASSUME(m.castle >= 0 && m.castle <= 15);
    // all redundant representations, consistent by construction
    U64 bit[MAXMEN];
    for (int k = 0; k < MAXMEN; k++) bit[k] = m.present[k] ? (1ULL << m.sq[k]) : 0;
    pos.whiteBB_ = 0; pos.blackBB_ = 0;
    for (int t = 0; t < Piece::nPieceTypes; t++) {
        U64 bb = 0;
        for (int k = 0; k < MAXMEN; k++)
            if (m.present[k] && m.piece[k] == t) bb |= bit[k];
        pos.pieceTypeBB_[t] = bb;
        if (t >= Piece::WKING && t <= Piece::WPAWN) pos.whiteBB_ |= bb;
        if (t >= Piece::BKING) pos.blackBB_ |= bb;
    }
    memset(&pos.squares, 0, sizeof(pos.squares));       // Piece::EMPTY == 0
    for (int k = 0; k < MAXMEN; k++)
        if (m.present[k]) pos.squares.tbl._M_elems[m.sq[k]] = m.piece[k];
    pos.whiteMove = m.wtm;
    pos.castleMask = m.castle;
    pos.epSquare = Square(-1);
    pos.halfMoveClock = 0;
    pos.fullMoveCounter = 1;
    return pos;
}

// spec: the table of material class pc covers a position iff no castling right is left, there is no pawn, and every piece kind
// occurs at most as often as in pc (missing pieces = already captured)
static int countOf(const Men& m, int t) { int c = 0; for (int k = 0; k < MAXMEN; k++) if (m.present[k] && m.piece[k] == t) c++; return c; }
static bool covered(const Men& m, const PieceCount& pc) {
    if (m.castle != 0) return false;
    if (countOf(m, Piece::WPAWN) || countOf(m, Piece::BPAWN)) return false;
    return countOf(m, Piece::WQUEEN) <= pc.nwq && countOf(m, Piece::WROOK) <= pc.nwr && countOf(m, Piece::WBISHOP) <= pc.nwb && countOf(m, Piece::WKNIGHT) <= pc.nwn &&
           countOf(m, Piece::BQUEEN) <= pc.nbq && countOf(m, Piece::BROOK) <= pc.nbr && countOf(m, Piece::BBISHOP) <= pc.nbb && countOf(m, Piece::BKNIGHT) <= pc.nbn;
}
#endif
