// C12-O2: TBPosition::setPosition on a symbolic Position; C12-O4a: PositionValue encoding.
// Real code under test: lib/texellib/tb/tbgen.{hpp,cpp}, position.hpp accessors, bitBoard.hpp (extractSquare/firstSquare).
#include "bitBoard.cpp"
#include "tbgen.cpp"
#include "verif.h"
#include "C12/tbcommon.h"
#ifndef MAXEXTRA
#define MAXEXTRA 2
#endif
#include "C12/posbuild.h"
#include "C12/models.h"

// ---- O2 ----
extern "C" void h_setpos(void) {
    PieceCount pc; classPC((int)verif_param(), pc);
    TBPosition tp(pc);                                   // real constructor
    const int p = pc.nPieces(), nW = tp.nWhite;
    Men m;
    Position& pos = buildPosition(m, MAXEXTRA);          // also positions with more men than the table
    bool ok = tp.setPosition(pos);                       // real
    verif_observe(ok);
    CHECK(ok == covered(m, pc), "setPosition succeeds exactly for positions the table covers (material fits, no castling rights, no pawns)");
    if (ok) {
        U32 idx = tp.getIndex();
        verif_observe(idx);
        CHECK(idx < tp.nPositions(), "index below nPositions");
        CHECK(tp.currIdx.whiteMove() == m.wtm, "side to move kept");
        int d[4] = {0, 0, 0, 0}; bool pres[4] = {false, false, false, false}; int npres = 0;
        for (int i = 0; i < p; i++) {
            d[i] = tp.currIdx.getSquare(i).asInt();
        }
        for (int i = 0; i < p; i++) {
            pres[i] = (i == 0 || i == nW || d[i] != d[nW]);
            if (pres[i]) npres++;
        }
        CHECK(npres == m.n, "index holds as many present pieces as the position has men");
        bool img = false;
        for (int g = 0; g < 8; g++) {
            bool all = true;
            for (int k = 0; k < MAXMEN; k++) {
                if (!m.present[k]) continue;
                int gs = symApply(g, m.sq[k]);
                bool found = false;
                for (int i = 0; i < p; i++)
                    if (pres[i] && tp.pieceTypes[i] == m.piece[k] && d[i] == gs) found = true;
                if (!found) all = false;
            }
            if (all) img = true;
        }
        CHECK(img, "index decodes to the position mirrored by one of the 8 board symmetries");
        CHECK(inTriangle(d[0]), "white king inside the a1-d1-d4 triangle");
        tp.setIndex(idx);
        CHECK(tp.indexValid(), "the index of a covered position is one the generator classifies as valid");
    }
    END();
}

// ---- O4a: PositionValue encoding ----
extern "C" void h_posvalue(void) {
    int n = nondet_int(), m2 = nondet_int();
    int which = nondet_int(); ASSUME(which >= 0 && which <= 7);
    PositionValue pv;
    CHECK(pv.isUnInitialized() && !pv.isComputed() && !pv.isDraw() && !pv.isUnknown() && !pv.isRemainingN(), "default value is UNINITIALIZED and nothing else");
    int k = -1; bool a, b;
    switch (which) {
    case 0: ASSUME(n >= 0 && n <= 63 && m2 >= 0 && m2 <= 63); pv.setMateInN(n);
            CHECK(pv.isMateInN(n) && (m2 == n || !pv.isMateInN(m2)), "isMateInN exact");
            a = pv.getMateInN(k); CHECK(a == (n >= 1) && (!a || k == n), "getMateInN returns n (mate in 0 = king can be taken: not a result)");
            b = pv.getMatedInN(k); CHECK(!b && !pv.isMatedInN(m2), "mate is not mated");
            CHECK(pv.isComputed() && !pv.isDraw() && !pv.isUnknown() && !pv.isRemainingN() && !pv.isUnInitialized(), "mate in n: class flags"); break;
    case 1: ASSUME(n >= 0 && n <= 62 && m2 >= 0 && m2 <= 63); pv.setMatedInN(n);
            CHECK(pv.isMatedInN(n) && (m2 == n || !pv.isMatedInN(m2)), "isMatedInN exact");
            a = pv.getMatedInN(k); CHECK(a && k == n, "getMatedInN returns n");
            b = pv.getMateInN(k); CHECK(!b && !pv.isMateInN(m2), "mated is not mate");
            CHECK(pv.isComputed() && !pv.isDraw() && !pv.isUnknown() && !pv.isRemainingN() && !pv.isUnInitialized(), "mated in n: class flags"); break;
    case 2: pv.setDraw();
            CHECK(pv.isDraw() && pv.isComputed() && !pv.isUnknown() && !pv.isRemainingN() && !pv.isUnInitialized(), "draw: class flags");
            a = pv.getMateInN(k); b = pv.getMatedInN(k); CHECK(!a && !b, "draw is neither mate nor mated"); break;
    case 3: pv.setInvalid();
            CHECK(!pv.isDraw() && pv.isComputed() && !pv.isUnknown() && !pv.isRemainingN() && !pv.isUnInitialized(), "invalid: class flags");
            a = pv.getMateInN(k); b = pv.getMatedInN(k); CHECK(!a && !b, "invalid is no result"); break;
    case 4: pv.setUnknown();
            CHECK(!pv.isDraw() && !pv.isComputed() && pv.isUnknown() && !pv.isRemainingN() && !pv.isUnInitialized(), "unknown: class flags");
            a = pv.getMateInN(k); b = pv.getMatedInN(k); CHECK(!a && !b, "unknown is no result"); break;
    case 5: ASSUME(n >= 1 && n <= 125 && m2 >= 0 && m2 <= 63); pv.setRemaining(n);
            CHECK(!pv.isDraw() && !pv.isComputed() && !pv.isUnknown() && pv.isRemainingN() && !pv.isUnInitialized(), "remaining n: class flags");
            a = pv.getMateInN(k); b = pv.getMatedInN(k); CHECK(!a && !b && !pv.isMateInN(m2) && !pv.isMatedInN(m2), "remaining is no result");
            { bool z = pv.decRemaining(); PositionValue q; q.setRemaining(n - 1);
              CHECK(z == (n == 1) && pv.getState() == q.getState(), "decRemaining counts down by one and reports reaching zero exactly at zero"); }
            break;
    case 6: { // byte round trip (table stored in the transposition table as raw bytes)
            U8 byte = nondet_u8(); PositionValue q(byte);
            CHECK((U8)q.getState() == byte, "byte -> PositionValue -> byte round trip");
            // every byte belongs to exactly one class; only mate(n>=1), mated and draw are results
            int s = (int)(signed char)byte;
            a = q.getMateInN(k); CHECK(a == (s >= 65) && (!a || k == s - 64), "byte class: mate in n");
            b = q.getMatedInN(k); CHECK(b == (s >= 1 && s <= 63) && (!b || k == 63 - s), "byte class: mated in n");
            CHECK(q.isDraw() == (s == 0), "byte class: draw");
            CHECK(q.isComputed() == (s >= -1), "byte class: computed");
            CHECK(q.isUnInitialized() == (s == -2) && q.isUnknown() == (s == -3) && q.isRemainingN() == (s <= -4), "byte class: uninitialised / unknown / remaining");
            break; }
    case 7: // the representable range ends here: mated in 63 collides with DRAW (documented limit, not reachable: longest 4-man pawnless mate is 40)
            pv.setMatedInN(63); CHECK(pv.isDraw(), "mated in 63 is not representable (collides with DRAW)"); break;
    }
    verif_observe((U64)(U8)pv.getState());
    END();
}

