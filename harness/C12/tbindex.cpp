// C12-O1 - index canonisation of the on-demand tablebase generator.
// Real code under test: lib/texellib/tb/tbgen.{hpp,cpp}: TBIndex::{setSquare,getSquare,canonize,sortPieces,mirrorX/Y/D,swapSide},
// TBPosition::{TBPosition,indexValid,setIndex,nPositions}, TBIndex::staticInitialize (tables symType/kingMap/kingMapInverse are
// produced by the real static initialiser and then checked here against symmetries written out from first principles).
#include "bitBoard.cpp"
#include "tbgen.cpp"
#include "verif.h"
#include "C12/tbcommon.h"

// Encode a raw placement through the public TBIndex interface: black king first (captured pieces are "on the black king"),
// then the other pieces, the white king last (it triggers the board mirroring), side to move, canonize.
static U32 encodePlacement(TBPosition& tp, const int* s, int p, bool wtm) {
    TBIndex& ix = tp.currIdx;
    const int nW = tp.nWhite;
    ix.setIndex(0);
    ix.setSquare(nW, Square(s[nW]));
    for (int i = 1; i < p; i++)
        if (i != nW) ix.setSquare(i, Square(s[i]));
    ix.setSquare(0, Square(s[0]));
    if (ix.whiteMove() != wtm) ix.swapSide();
    ix.canonize(tp.pieceTypes, tp.duplicatedPieces);
    return ix.getIndex();
}

// Is placement t (with side) an image of placement s under board symmetry g and an optional swap of pieces a,b?
static bool imageOf(const int* t, const int* s, int p, int g, int a, int b) {
    bool m = true;
    for (int i = 0; i < p; i++) {
        int src = (i == a) ? b : (i == b) ? a : i;
        if (t[i] != symApply(g, s[src])) m = false;
    }
    return m;
}


// ---- O1a: setSquare of the white king: lands in the a1-d1-d4 triangle and applies one and the same board symmetry to every piece
static void body_wking(int cls) {
    PieceCount pc; classPC(cls, pc);
    TBPosition tp(pc);                                   // real constructor
    const int p = pc.nPieces();
    U32 idx = nondet_u32();
    ASSUME(idx < tp.nPositions());
    tp.setIndex(idx);
    TBIndex& ix = tp.currIdx;
    int old[4] = {0, 0, 0, 0};
    for (int i = 0; i < p; i++) old[i] = ix.getSquare(i).asInt();
    CHECK(inTriangle(old[0]), "every index below nPositions decodes to a white king inside the triangle");
    bool wtm = ix.whiteMove();
    int sq = nondet_int(); ASSUME(sq >= 0 && sq < 64);
    ix.setSquare(0, Square(sq));                         // real
    verif_observe(ix.getIndex());
    int k = ix.getSquare(0).asInt();
    CHECK(inTriangle(k), "white king mapped into the a1-d1-d4 triangle");
    bool some = false;
    for (int g = 0; g < 8; g++) {
        bool m = symApply(g, sq) == k;
        for (int i = 1; i < p; i++)
            if (ix.getSquare(i).asInt() != symApply(g, old[i])) m = false;
        if (m) some = true;
    }
    CHECK(some, "one board symmetry maps the requested king square to the stored one and every other piece to its new square");
    CHECK(ix.whiteMove() == wtm, "side to move untouched by setSquare");
    CHECK(ix.getIndex() < tp.nPositions(), "index stays below nPositions");
    if (inTriangle(sq)) CHECK(k == sq, "a king square already inside the triangle is kept");
}

// ---- O1b: setSquare/getSquare on the other pieces; the black king drags the captured pieces along
static void body_setsq(int cls) {
    PieceCount pc; classPC(cls, pc);
    TBPosition tp(pc);
    const int p = pc.nPieces(), nW = tp.nWhite;
    U32 idx = nondet_u32();
    ASSUME(idx < tp.nPositions());
    tp.setIndex(idx);
    TBIndex& ix = tp.currIdx;
    int old[4] = {0, 0, 0, 0};
    for (int i = 0; i < p; i++) old[i] = ix.getSquare(i).asInt();
    bool wtm = ix.whiteMove();
    int i = nondet_int(), sq = nondet_int();
    ASSUME(i >= 1 && i < p && sq >= 0 && sq < 64);
    ix.setSquare(i, Square(sq));                         // real
    verif_observe(ix.getIndex());
    CHECK(ix.getSquare(i).asInt() == sq, "getSquare(setSquare(i,sq)) == sq");
    CHECK(ix.getSquare(0).asInt() == old[0] && ix.whiteMove() == wtm, "white king and side to move untouched");
    for (int j = 1; j < p; j++) {
        if (j == i) continue;
        if (i == nW && old[j] == old[nW]) CHECK(ix.getSquare(j).asInt() == sq, "captured piece follows the black king");
        else CHECK(ix.getSquare(j).asInt() == old[j], "other pieces untouched");
    }
    CHECK(ix.getIndex() < tp.nPositions(), "index stays below nPositions");
    ix.swapSide();
    CHECK(ix.whiteMove() != wtm && ix.getSquare(0).asInt() == old[0] && ix.getSquare(i).asInt() == sq && ix.getIndex() < tp.nPositions(), "swapSide flips only the side bit");
}

// ---- O1c: canonisation.  Two placements that are images of each other under any of the 8 board symmetries and under swapping
//      two identical pieces get the same index; the index decodes to an image of the placement; canonize is idempotent;
//      indexValid holds for the index exactly when the placement is a legal arrangement (kings apart, no shared squares).
static void body_canon(int cls) {
    PieceCount pc; classPC(cls, pc);
    TBPosition tp(pc);
    const int p = pc.nPieces(), nW = tp.nWhite;
    int s[4] = {0, 0, 0, 0}, t[4] = {0, 0, 0, 0};
    for (int i = 0; i < p; i++) { s[i] = nondet_int(); ASSUME(s[i] >= 0 && s[i] < 64); }
    bool wtm = nondet_bool();
    // the pair of identical pieces of this class, if any (<= 4 men: at most one pair)
    int da = -1, db = -1;
    for (int i = 1; i < p; i++)
        for (int j = i + 1; j < p; j++)
            if (i != nW && j != nW && tp.pieceTypes[i] == tp.pieceTypes[j]) { da = i; db = j; }
    int g = nondet_int(); ASSUME(g >= 0 && g < 8);
    bool swap = nondet_bool();
    for (int i = 0; i < p; i++) {
        int src = (swap && i == da) ? db : (swap && i == db) ? da : i;
        t[i] = symApply(g, s[src]);
    }
    U32 A = encodePlacement(tp, s, p, wtm);              // real setSquare/canonize
    U32 B = encodePlacement(tp, t, p, wtm);
    verif_observe(A); verif_observe(B);
    CHECK(A == B, "equivalent placements (board symmetry, swap of identical pieces) get the same index");
    CHECK(A < tp.nPositions(), "index below nPositions");
    // decode
    tp.setIndex(A);
    int d[4] = {0, 0, 0, 0};
    for (int i = 0; i < p; i++) d[i] = tp.currIdx.getSquare(i).asInt();
    CHECK(tp.currIdx.whiteMove() == wtm, "side to move kept");
    CHECK(inTriangle(d[0]), "canonical white king inside the triangle");
    bool img = false;
    for (int h = 0; h < 8; h++) {
        if (imageOf(d, s, p, h, -1, -1)) img = true;
        if (da >= 0 && imageOf(d, s, p, h, da, db)) img = true;
    }
    CHECK(img, "index decodes to an image of the placement under one board symmetry (identical pieces possibly swapped)");
    // idempotence
    tp.currIdx.canonize(tp.pieceTypes, tp.duplicatedPieces);
    CHECK(tp.currIdx.getIndex() == A, "canonize is idempotent");
    // indexValid <=> legal arrangement
    bool legal = s[0] != s[nW];
    for (int i = 0; i < p; i++)
        for (int j = i + 1; j < p; j++) {
            bool pi = (i == 0 || i == nW || s[i] != s[nW]), pj = (j == 0 || j == nW || s[j] != s[nW]);   // present = not captured
            if (pi && pj && s[i] == s[j]) legal = false;
        }
    tp.setIndex(A);
    CHECK(tp.indexValid() == legal, "indexValid(encode(placement)) <=> kings on different squares and no two present pieces share a square");
}

// ---- O1d: every index the generator visits: indexValid => legal arrangement and the index is its own representative
static void body_valid(int cls) {
    PieceCount pc; classPC(cls, pc);
    TBPosition tp(pc);
    const int p = pc.nPieces(), nW = tp.nWhite;
    U32 idx = nondet_u32();
    ASSUME(idx < tp.nPositions());
    tp.setIndex(idx);
    int d[4] = {0, 0, 0, 0};
    for (int i = 0; i < p; i++) d[i] = tp.currIdx.getSquare(i).asInt();
    bool wtm = tp.currIdx.whiteMove();
    bool v = tp.indexValid();                            // real
    verif_observe(v);
    if (v) {
        CHECK(tp.getIndex() == idx, "indexValid leaves a valid index unchanged");
        CHECK(d[0] != d[nW], "valid index: kings on different squares");
        for (int i = 0; i < p; i++)
            for (int j = i + 1; j < p; j++) {
                bool pi = (i == 0 || i == nW || d[i] != d[nW]), pj = (j == 0 || j == nW || d[j] != d[nW]);
                if (pi && pj) CHECK(d[i] != d[j], "valid index: no two present pieces share a square");
            }
        CHECK(encodePlacement(tp, d, p, wtm) == idx, "valid index is the index of the placement it decodes to (own representative)");
    } else {
        // not valid: either an illegal arrangement or a non-canonical duplicate of another index
        bool legal = d[0] != d[nW];
        for (int i = 0; i < p; i++)
            for (int j = i + 1; j < p; j++) {
                bool pi = (i == 0 || i == nW || d[i] != d[nW]), pj = (j == 0 || j == nW || d[j] != d[nW]);
                if (pi && pj && d[i] == d[j]) legal = false;
            }
        if (legal) CHECK(encodePlacement(tp, d, p, wtm) != idx, "a legal arrangement is rejected only when another index represents it");
    }
}

// Entries: verif_param() = material class 0..44 (concrete), squares/indices symbolic.
extern "C" void h_index(void) { int c = (int)verif_param(); body_wking(c); body_setsq(c); body_valid(c); END(); }
// ---- L1: lemma for the substitution used by the Position-level units: firstBit == count trailing zeros on non-empty masks
extern "C" void h_lemma_firstbit(void) {
    U64 m = nondet_u64();
    ASSUME(m != 0);
    int r = BitUtil::firstBit(m);                        // real (De Bruijn multiply + trailingZ table)
    verif_observe((U64)r);
    int z = 0;
    for (int i = 63; i >= 0; i--) if ((m >> i) & 1) z = i;   // lowest set bit, naively
    CHECK(r == z, "firstBit(mask) is the index of the lowest set bit");
    CHECK(r == __builtin_ctzll(m), "firstBit(mask) == ctz(mask) (the model)");
    U64 mm = m; int e = BitUtil::extractBit(mm);
    CHECK(e == z && mm == (m & ~(1ULL << z)), "extractBit returns the lowest set bit and clears exactly it");
    END();
}
// ---- L2: lemma for the substitution used by the updateTB unit: bitCount == population count
extern "C" void h_lemma_bitcount(void) {
    U64 m = nondet_u64();
    int r = BitUtil::bitCount(m);                        // real (SWAR + multiply)
    verif_observe((U64)r);
    int c = 0;
    for (int i = 0; i < 64; i++) c += (int)((m >> i) & 1);   // naive count
    CHECK(r == c, "bitCount(mask) is the number of set bits");
    CHECK(r == __builtin_popcountll(m), "bitCount(mask) == popcount(mask) (the model)");
    END();
}
extern "C" void h_canon(void) { body_canon((int)verif_param()); END(); }
