// C12-O4b: TBGenerator::probeDTM score conversion, for a table in its own memory (VectorStorage) and inside the
// transposition table (TTStorage).
// Real code under test: lib/texellib/tb/tbgen.{hpp,cpp} (TBGenerator::probeDTM, TBGenerator ctor, PositionValue getters, TBPosition ctor),
// transpositionTable.hpp (TTStorage::resize/operator[]).
#include "bitBoard.cpp"
#include "tbgen.cpp"
#include "verif.h"
#include "C12/tbcommon.h"
#include <new>

// ---- O4b: probeDTM.  The table readers return one symbolic byte, so whichever entry the real code reads holds that byte. ----
// Stubs (assume-guarantee):
//   TBPosition::setPosition             -> model_setPosition: any (found, index < nPositions) pair - the contract obligation O2 proves
//                                          for the real function (found <=> position covered by the table's material, no castling rights)
//   VectorStorage::operator[](idx)      -> model_vecRead: returns one symbolic byte whatever entry is asked for and records the entry
//   VectorStorage::resize(n)            -> model_vecResize: records n (memory allocation of the private vector)
//   TranspositionTable::getByte(byteIx) -> model_getByte: same for a table inside the transposition table; the real getByte/putByte
//                                          lane arithmetic is obligation O6
static bool stubOk; static U32 stubIdx;
static U8 stubByte; static U64 readIdx; static int nReads; static U64 vecSize;
extern "C" bool model_setPosition(TBPosition* self, const Position& pos) { self->currIdx.setIndex(stubIdx); return stubOk; }
extern "C" PositionValue model_vecRead(const VectorStorage* self, U32 idx) { readIdx = idx; nReads++; return PositionValue(stubByte); }
extern "C" void model_vecResize(VectorStorage* self, U32 n) { vecSize = n; }
extern "C" U8 model_getByte(TranspositionTable* self, U64 idx) { readIdx = idx; nReads++; return stubByte; }

union TTBox { TranspositionTable tt; TTBox() {} ~TTBox() {} };   // typed storage, constructors not run
static TTBox ttBox;
union VSBox { VectorStorage vs; VSBox() {} ~VSBox() {} };
static VSBox vsBox;
union PosBox { Position pos; PosBox() {} ~PosBox() {} };
static PosBox posBox;

// expected score from the search's convention: a checkmated side to move at ply q scores -(MATE0-(q+1)); negate once per ply upwards
static int scoreOfMateAt(int ply, int pliesToMate) {
    int q = ply + pliesToMate;
    int atMate = -(SearchConst::MATE0 - (q + 1));
    return (pliesToMate & 1) ? -atMate : atMate;
}

static void checkProbe(bool r, int score, int score0, int ply) {
    int s = (int)(signed char)stubByte;
    bool isResult = s >= 0 && s != 64;                  // 0 draw, 1..63 mated in 63-s, 65..127 mate in s-64
    CHECK(r == (stubOk && isResult), "probe answers exactly for covered positions whose table byte is a final result (never for UNKNOWN/REMAINING/INVALID/UNINITIALIZED/king-capture bytes)");
    CHECK(nReads == (stubOk ? 1 : 0), "one table read for a covered position, none otherwise");
    if (!r) { CHECK(score == score0, "score untouched when not found"); return; }
    if (s == 0) CHECK(score == 0, "draw => 0");
    else if (s >= 65) CHECK(score == scoreOfMateAt(ply, 2 * (s - 64) - 1) && score == SearchConst::MATE0 - ply - 2 * (s - 64), "mate in n => MATE0 - ply - 2n");
    else CHECK(score == scoreOfMateAt(ply, 2 * (63 - s)) && score == -(SearchConst::MATE0 - ply - 2 * (63 - s) - 1), "mated in n => -(MATE0 - ply - 2n - 1)");
    if (s != 0) CHECK(SearchConst::isWinScore(score) == (s >= 65) && SearchConst::isLoseScore(score) == (s <= 63), "mate scores are classified as win/loss by the search");
}

static void setupStubs(const PieceCount& pc, int& ply, int& score0, U32& nPos) {
    TBPosition tp(pc);                                   // real constructor: nPositions of the class
    nPos = tp.nPositions();
    stubByte = nondet_u8(); stubOk = nondet_bool(); stubIdx = nondet_u32(); nReads = 0;
    ASSUME(stubIdx < nPos);
    ply = nondet_int(); score0 = nondet_int(); ASSUME(ply >= 0 && ply <= 400);
}

extern "C" void h_probe_vec(void) {
    PieceCount pc; classPC((int)verif_param(), pc);
    int ply, score0; U32 nPos;
    setupStubs(pc, ply, score0, nPos);
    TBGenerator<VectorStorage> gen(vsBox.vs, pc);        // real constructor
    CHECK(vecSize == nPos, "own-memory table is sized to nPositions entries");
    int score = score0;
    bool r = gen.probeDTM(posBox.pos, ply, score);      // real
    verif_observe(r); verif_observe((U64)(unsigned)score);
    checkProbe(r, score, score0, ply);
    if (stubOk) CHECK(readIdx == stubIdx, "the entry read is the one at the position's index");
    END();
}

extern "C" void h_probe_tt(void) {
    PieceCount pc; classPC((int)verif_param(), pc);
    int ply, score0; U32 nPos;
    setupStubs(pc, ply, score0, nPos);
    TranspositionTable& tt = ttBox.tt;
    U64 n = nondet_u64(); ASSUME(n >= 458752 && n <= (1ULL << 35) && (n & 3) == 0);   // >= 7 MiB as updateTB requires
    tt.table = nullptr; tt.tableSize = n;
    new (&tt.ttStorage) TTStorage(tt);
    TBGenerator<TTStorage> gen(tt.ttStorage, pc);        // real constructor: carves the region from the top of the table
    int score = score0;
    bool r = gen.probeDTM(posBox.pos, ply, score);      // real
    verif_observe(r); verif_observe((U64)(unsigned)score);
    checkProbe(r, score, score0, ply);
    if (stubOk) CHECK(readIdx == n * 16 - nPos + stubIdx && readIdx < n * 16, "the byte read is the one at the position's index inside the region at the top of the table");
    END();
}
