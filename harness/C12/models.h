// C12 proved substitutions.
// BitUtil::firstBit (De Bruijn multiply + table) -> count-trailing-zeros.
// Lemma obligation L1 (tbindex.cpp: h_lemma_firstbit, no alias in that unit) proves real == model for every non-empty mask;
// the model itself asserts that it is never called with an empty mask, so the substitution is sound wherever it is used.
#ifndef C12_MODELS_H
#define C12_MODELS_H
extern "C" int model_firstBit(U64 mask) {
    CHECK(mask != 0, "firstBit never called with an empty mask");
    return __builtin_ctzll(mask);
}
// Proved substitution: BitUtil::bitCount (SWAR + multiply) -> population count; lemma L2 (tbindex.cpp: h_lemma_bitcount).
extern "C" int model_bitCount(U64 mask) { return __builtin_popcountll(mask); }
#endif
