// C12-O5 (installation / abort state machine of TranspositionTable::updateTB) and C12-O6 (tablebase region inside the
// transposition table: byte range, isolation from hashing, byte-lane arithmetic of getByte/putByte).
// Real code under test: lib/texellib/transpositionTable.cpp (updateTB, probeDTM, setUsedSize), transpositionTable.hpp
// (TTStorage::resize/store/operator[], getByte, putByte, byteSize, getIndex), tb/tbgen.cpp (TBGenerator/TBPosition constructors in O6).
#include "bitBoard.cpp"
#include "tbgen.cpp"
#include "transpositionTable.cpp"
#include "verif.h"
#include "C12/tbcommon.h"
#ifndef MAXEXTRA
#define MAXEXTRA 3
#endif
#include "C12/posbuild.h"
#include "C12/models.h"

typedef TranspositionTable TT;
typedef TBGenerator<TTStorage> Gen;
union TTBox { TT tt; TTBox() {} ~TTBox() {} };          // typed storage, constructor not run (it would allocate the table)
static TTBox ttBox;

// The spec's own constants, written out: the region is 5 MiB = 327680 slots of 16 bytes; a table needs >= 7 MiB to host one.
static const U64 REGION_BYTES = 5242880, REGION_SLOTS = 327680, MIN_TT_BYTES = 7340032;

// ================= O5: stubs for the generator (unit 'tbinstall' only) =================
// ghost state: which generator object was constructed last, and whether the last generate() on it completed
static const void* g_obj; static bool g_complete;
static int g_ctor, g_gen, g_probe; static bool stubGenResult, stubStop, stubFound; static int stubScore;
static PieceCount g_pc; static S64 g_maxTimeAtGen;
extern "C" void model_genCtor(Gen* self, TTStorage& st, const PieceCount& pc) {
    g_obj = self; g_complete = false; g_ctor++; g_pc = pc;
}
extern "C" bool model_generate(Gen* self, RelaxedShared<S64>& maxTimeMillis, bool verbose) {
    CHECK(self == g_obj, "generate() runs on the generator constructed last");
    g_gen++; g_maxTimeAtGen = maxTimeMillis;
    if (stubStop) maxTimeMillis = 0;                     // a UCI stop request arrives while the table is being generated
    g_complete = stubGenResult;                          // false = aborted by the time limit or by the stop request
    return stubGenResult;
}
extern "C" bool model_genProbe(const Gen* self, const Position& pos, int ply, int& score) {
    CHECK(self == g_obj && g_complete, "only a completely generated table is ever consulted");
    g_probe++;
    if (stubFound) score = stubScore;
    return stubFound;
}

// index parameters as setUsedSize's contract states them (C08-O1 proves what getIndex needs from them)
static bool derivedOK(const TT& tt) {
    U64 us = tt.usedSize; int top = tt.usedSizeTopBits, sh = tt.usedSizeShift;
    if (sh < 0 || sh > 56 || top < 0 || top > 255) return false;
    if (us < 256) { if (sh != 0 || (U64)top != us) return false; }
    else if (top < 128 || (us >> sh) != (U64)top) return false;
    return tt.usedSizeMask == (((1ULL << sh) - 1) & ~3ULL);
}
static void symbolicDerived(TT& tt, U64 us) {
    tt.usedSize = us; tt.usedSizeTopBits = nondet_int(); tt.usedSizeShift = nondet_int(); tt.usedSizeMask = nondet_u64();
    ASSUME(derivedOK(tt));
}

static void symbolicTT(TT& tt, bool& hasGen) {
    U64 n = nondet_u64(); ASSUME(n >= 4 && n <= (1ULL << 35) && (n & 3) == 0);
    tt.table = nullptr; tt.tableSize = n; tt.generation = 0; tt.contemptHash = 0;
    new (&tt.ttStorage) TTStorage(tt);
    hasGen = nondet_bool();
    int cnt = nondet_int(); ASSUME(cnt >= 0 && cnt <= 4);
    tt.notUsedCnt = cnt;
    if (hasGen) {                                        // a completely generated table is installed
        ASSUME(n * 16 >= MIN_TT_BYTES);
        Gen* old = (Gen*)malloc(sizeof(Gen));
        new (&tt.tbGen) std::unique_ptr<Gen>(old);
        g_obj = old; g_complete = true;
        symbolicDerived(tt, n - REGION_SLOTS);
    } else {
        new (&tt.tbGen) std::unique_ptr<Gen>();
        g_obj = nullptr; g_complete = false;
        symbolicDerived(tt, n);
    }
    g_ctor = g_gen = g_probe = 0;
}

// the installation invariant
static void checkInvariant(TT& tt) {
    if (tt.tbGen != nullptr) {
        CHECK(tt.tbGen.get() == g_obj && g_complete, "an installed table is one whose last generate() completed");
        CHECK(tt.tableSize * 16 >= MIN_TT_BYTES && tt.usedSize == tt.tableSize - REGION_SLOTS, "installed table: hashing excludes the 5 MiB region at the top");
    } else {
        CHECK(tt.usedSize == tt.tableSize, "no table installed: the whole transposition table is used for hashing");
    }
    CHECK(derivedOK(tt), "index parameters (top bits, shift, mask) match usedSize");
    CHECK(tt.notUsedCnt >= 0 && tt.notUsedCnt <= 4, "notUsedCnt stays in 0..4");
}

// param bit 0: 0 = generation (if attempted) completes, 1 = it is aborted (time limit or stop request);
// param bit 1: a completely generated table is already installed before the call
extern "C" void h_updatetb(void) {
    TT& tt = ttBox.tt;
    bool hasGen;
    symbolicTT(tt, hasGen);
    ASSUME(hasGen == ((verif_param() & 2) != 0));
    const void* oldObj = g_obj; const int cnt0 = tt.notUsedCnt;
    Men m;
    Position& pos = buildPosition(m, MAXEXTRA);          // 2..5 men, any kinds incl. pawns
    S64 mt = (S64)(int)nondet_int(); ASSUME(mt >= -1);    // Search::timeLimit(int,int): -1 = no limit
    RelaxedShared<S64> maxTime(mt);
    stubGenResult = ((verif_param() & 1) == 0); stubStop = nondet_bool(); stubFound = nondet_bool(); stubScore = nondet_int();
    if (stubGenResult) ASSUME(!stubStop);                // a stop request makes generate() return false
    bool r = tt.updateTB(pos, maxTime);                  // real
    verif_observe(r); verif_observe(tt.usedSize); verif_observe((U64)g_gen);
    checkInvariant(tt);
    CHECK(!r || (tt.tbGen != nullptr && g_complete), "updateTB answers 'tablebase available' only with a completely generated table installed");
    bool suitable = m.n <= 4 && countOf(m, Piece::WPAWN) == 0 && countOf(m, Piece::BPAWN) == 0;
    CHECK(g_gen <= 1 && g_ctor == g_gen, "at most one generator is built and generated per call");
    if (g_gen == 1) {
        CHECK(suitable, "a table is generated only for pawnless positions with at most four men");
        CHECK(tt.tableSize * 16 >= MIN_TT_BYTES, "a table is generated only when the transposition table has room (>= 7 MiB)");
        CHECK(g_maxTimeAtGen < 0 || g_maxTimeAtGen >= 3000, "a table is generated only without time limit or with at least the required time");
        CHECK(g_pc.nwq == countOf(m, Piece::WQUEEN) && g_pc.nwr == countOf(m, Piece::WROOK) && g_pc.nwb == countOf(m, Piece::WBISHOP) && g_pc.nwn == countOf(m, Piece::WKNIGHT) &&
              g_pc.nbq == countOf(m, Piece::BQUEEN) && g_pc.nbr == countOf(m, Piece::BROOK) && g_pc.nbb == countOf(m, Piece::BBISHOP) && g_pc.nbn == countOf(m, Piece::BKNIGHT),
              "the generator is built for exactly the material of the root position");
        CHECK(r == stubGenResult, "result of a generation attempt is reported");
        if (stubGenResult) CHECK(tt.tbGen != nullptr && tt.notUsedCnt == 0, "completed generation is installed");
    } else if (suitable) {
        if (hasGen && g_probe == 1 && stubFound) CHECK(r && tt.tbGen.get() == oldObj && tt.notUsedCnt == 0, "root position already in the installed table: table kept");
        else CHECK(tt.tbGen.get() == oldObj, "no generation attempted: installed table unchanged");
    } else {
        // position not suitable: the table is released after being unsuitable more than 4 times in a row
        if (hasGen && cnt0 > 3) CHECK(tt.tbGen == nullptr && !r, "unused table released");
        else if (hasGen) CHECK(tt.tbGen.get() == oldObj && r && tt.notUsedCnt == cnt0 + 1, "unused table kept for now, use counted");
        else CHECK(tt.tbGen == nullptr && !r, "nothing installed, nothing to release");
    }
    // consequence for the search: a later probe (real TranspositionTable::probeDTM) consults only a complete table
    int sc = 0;
    g_probe = 0;
    bool f = tt.probeDTM(pos, 5, sc);                    // real; the stub asserts completeness of what it is asked
    CHECK(f == (tt.tbGen != nullptr && stubFound) && g_probe == (tt.tbGen != nullptr ? 1 : 0), "probeDTM consults the installed table, and only it");
    END();
}

// ---- O5c: TranspositionTable::clear() (Clear Hash / ucinewgame) drops the on-demand table together with the bytes that held it
static const int NSC = 8;
alignas(64) static TT::TTEntryStorage clrArr[NSC];
extern "C" void h_clear(void) {
    TT& tt = ttBox.tt;
    bool hasGen;
    symbolicTT(tt, hasGen);
    // a small real table, so that the single-threaded memset branch of clear() runs (tables > 2^20 entries are zeroed by a
    // thread pool: outside what can be lowered); the tablebase bookkeeping that follows does not depend on the size
    tt.table = clrArr; tt.tableSize = NSC;
    for (int i = 0; i < NSC; i++) { clrArr[i].key.store(nondet_u64(), std::memory_order_relaxed); clrArr[i].data.store(nondet_u64(), std::memory_order_relaxed); }
    tt.clear();                                          // real
    verif_observe(tt.usedSize);
    CHECK(tt.tbGen == nullptr, "clear() releases the on-demand tablebase (its bytes are zeroed with the rest of the table)");
    CHECK(tt.usedSize == tt.tableSize && derivedOK(tt), "clear() gives the whole table back to hashing");
    CHECK(tt.notUsedCnt == 0, "clear() resets the unused counter");
    bool zero = true;
    for (int i = 0; i < NSC; i++) zero = zero && clrArr[i].key.load(std::memory_order_relaxed) == 0 && clrArr[i].data.load(std::memory_order_relaxed) == 0;
    CHECK(zero, "clear() zeroes every slot");
    int sc = 0; Men m; Position& pos = buildPosition(m, MAXEXTRA);
    g_probe = 0;
    CHECK(!tt.probeDTM(pos, 3, sc) && g_probe == 0, "after clear() no tablebase is consulted");
    END();
}

// ================= O6: region arithmetic (unit 'tbregion': getByte/putByte record the byte index) =================
static U64 touched; static int nTouch; static U8 putVal;
extern "C" U8 model_getByte(TT* self, U64 idx) { touched = idx; nTouch++; return 0; }
extern "C" void model_putByte(TT* self, U64 idx, U8 v) { touched = idx; nTouch++; putVal = v; }

extern "C" void h_region(void) {
    PieceCount pc; classPC((int)verif_param(), pc);
    TT& tt = ttBox.tt;
    U64 n = nondet_u64(); ASSUME(n <= (1ULL << 35) && (n & 3) == 0 && n * 16 >= MIN_TT_BYTES);
    tt.table = nullptr; tt.tableSize = n; tt.contemptHash = 0;
    new (&tt.ttStorage) TTStorage(tt);
    tt.setUsedSize(n - REGION_SLOTS);                    // what updateTB installs (O5)
    Gen gen(tt.ttStorage, pc);                           // real constructor: TBPosition(pc).nPositions() -> TTStorage::resize
    TBPosition tp(pc);
    const U64 nPos = tp.nPositions();
    U64 expect = 20; for (int i = 1; i < pc.nPieces(); i++) expect *= 64;   // 10 king squares x 2 sides x 64 per further man
    CHECK(nPos == expect && nPos <= REGION_BYTES, "table size of the class fits the reserved 5 MiB");
    U32 idx = nondet_u32(); ASSUME(idx < nPos);
    bool wr = nondet_bool(); U8 v = nondet_u8();
    nTouch = 0;
    if (wr) { PositionValue pv(v); tt.ttStorage.store(idx, pv); }       // real TTStorage::store
    else (void)tt.ttStorage[idx];                                          // real TTStorage::operator[]
    verif_observe(touched);
    CHECK(nTouch == 1, "one byte access per table access");
    CHECK(!wr || putVal == v, "stored byte is the value's state byte");
    CHECK(touched >= n * 16 - nPos && touched < n * 16, "byte index inside [byteSize - nPositions, byteSize)");
    CHECK(touched == n * 16 - nPos + idx, "distinct entries use distinct bytes (offset + index)");
    CHECK(touched / 16 >= tt.usedSize, "the slot holding the byte lies above the hashed part of the table");
    // and the hashed part really ends below it: every bucket the real index function can produce is below usedSize
    U64 key = nondet_u64();
    size_t b = tt.getIndex(key);                         // real
    CHECK(b + 3 < tt.usedSize && b + 3 < touched / 16, "no hash bucket overlaps the slot of a tablebase byte");
    END();
}

// ---- O6b: byte-lane arithmetic of the real getByte/putByte on a small table (unit 'tbinstall': not stubbed there)
static const int NS = 8;
alignas(64) static TT::TTEntryStorage slotArr[NS];
extern "C" void h_lanes(void) {
    TT& tt = ttBox.tt;
    tt.table = slotArr; tt.tableSize = NS;
    U64 k0[NS], d0[NS];
    for (int i = 0; i < NS; i++) {
        k0[i] = nondet_u64(); d0[i] = nondet_u64();
        slotArr[i].key.store(k0[i], std::memory_order_relaxed); slotArr[i].data.store(d0[i], std::memory_order_relaxed);
    }
    CHECK(tt.byteSize() == NS * 16, "byteSize = 16 bytes per slot");
    U64 bi = nondet_u64(); ASSUME(bi < (U64)NS * 16);
    U64 bj = nondet_u64(); ASSUME(bj < (U64)NS * 16);
    U8 v = nondet_u8();
    // naive byte view of the table: slot s, word (key first, data second), little-endian lane
    U64 wj = (bj % 16 < 8) ? k0[bj / 16] : d0[bj / 16];
    U8 oldj = (U8)(wj >> (8 * (bj % 8)));
    CHECK(tt.getByte(bj) == oldj, "getByte reads lane (idx mod 8) of word (idx mod 16)/8 of slot idx/16");
    tt.putByte(bi, v);                                   // real
    verif_observe(slotArr[bi / 16].key.load(std::memory_order_relaxed)); verif_observe(slotArr[bi / 16].data.load(std::memory_order_relaxed));
    CHECK(tt.getByte(bi) == v, "putByte then getByte returns the value");
    if (bj != bi) CHECK(tt.getByte(bj) == oldj, "every other byte of the table is untouched");
    int changedWords = 0;
    for (int i = 0; i < NS; i++) {
        if (slotArr[i].key.load(std::memory_order_relaxed) != k0[i]) { changedWords++; CHECK(i == (int)(bi / 16) && bi % 16 < 8, "only the addressed word may change"); }
        if (slotArr[i].data.load(std::memory_order_relaxed) != d0[i]) { changedWords++; CHECK(i == (int)(bi / 16) && bi % 16 >= 8, "only the addressed word may change"); }
    }
    CHECK(changedWords <= 1, "at most one 64-bit word written");
    END();
}
