// C15 - reverse move generation: for a symbolic K-man position P and a legal move m (list-of-men oracle), with
// Q = fixupEP(makeMove(P, m)):
//   O2  the raw un-move generator RevMoveGen::genMovesNoUndoInfo(Q) contains (m.from, m.to, m.promoteTo)
//   O1  RevMoveGen::knownInvalid(Q, m, ui_true) is false, i.e. the true predecessor is never statically rejected, and the
//       position rebuilt inside it by unMakeMove is exactly P
// Real code under test: lib/texelutillib/revmovegen.{hpp,cpp} (genMovesNoUndoInfo, knownInvalid, pieceCountsValid, sqAttacked),
// Position::makeMove/unMakeMove/copy, MoveGen::canTakeKing/sqAttacked.
// Stubs: TextIO::fixupEPSquare -> its specification computed by the oracle (ep square kept iff a legal en-passant capture
// exists); RevMoveGen::addMovesByMask -> recording model (the real one is MoveList::addMove in a loop over the mask bits:
// same shape as C01-O2-expand).
#include "bitBoard.cpp"
#include "material.cpp"
#include "position.cpp"
#include "moveGen.cpp"
#include "textio.cpp"
#include "revmovegen.cpp"
#include "verif.h"
#include "models.h"

int pieceValue[Piece::nPieceTypes];
DEFINE_PARAM(kV);

#ifndef NMEN
#define NMEN 3
#endif
#include "../C01/oracle.h"

// ---- oracle: the en-passant square after fix-up (kept iff some legal en-passant capture exists)
static int fixedEp(const Brd& b) {
    if (b.ep == -1) return -1;
    bool any = false;
    for (int k = 2; k < NMEN; k++) {
        int p = b.men[k].p;
        if (p != (b.wtm ? Piece::WPAWN : Piece::BPAWN)) continue;
        bool gc; if (legalMove(b, b.men[k].s, b.ep, 0, gc)) any = true;
    }
    return any ? b.ep : -1;
}
// the en-passant square Position::makeMove sets: after a double push next to an enemy pawn
static int epAfter(const Brd& b, int from, int to) {
    int p = pieceAt(b, from);
    if (kindOf(p) != 6) return -1;
    int d = to - from; if (d != 16 && d != -16) return -1;
    int enemy = b.wtm ? Piece::BPAWN : Piece::WPAWN; int x = to & 7;
    bool adj = (x > 0 && pieceAt(b, to - 1) == enemy) || (x < 7 && pieceAt(b, to + 1) == enemy);
    return adj ? (from + to) / 2 : -1;
}
static int castleAfter(const Brd& b, int from, int to) {
    int lost = 0;
    if (from == E1 || to == E1) lost |= 3; if (from == A1 || to == A1) lost |= 1; if (from == H1 || to == H1) lost |= 2;
    if (from == E8 || to == E8) lost |= 12; if (from == A8 || to == A8) lost |= 4; if (from == H8 || to == H8) lost |= 8;
    return b.castle & ~lost;
}

// ---- recording model of RevMoveGen::addMovesByMask
struct RRec { U64 fromMask; int to, prom; };
#define MAXRR (NMEN + 6)
static RRec rr[MAXRR]; static int nrr; static bool rrOverflow;
extern "C" void model_revAddMovesByMask(MoveList& ml, U64 fromMask, Square toSq, int promoteTo) {
    if (nrr < MAXRR) { rr[nrr].fromMask = fromMask; rr[nrr].to = toSq.asInt(); rr[nrr].prom = promoteTo; nrr++; } else rrOverflow = true;
}
// ---- specification stub of TextIO::fixupEPSquare, bound to the two boards the harness knows
static Brd gP, gAfter; static int fixCalls; static bool fixBoardMismatch;
static bool sameBoard(const Position& pos, const Brd& b) {
    bool same = pos.isWhiteMove() == b.wtm && pos.getCastleMask() == b.castle && pos.getEpSquare().asInt() == b.ep;
    for (int i = 0; i < 64; i++) same = same && pos.getPiece(Square(i)) == pieceAt(b, i);
    return same;
}
extern "C" void model_fixupEPSquare(Position& pos) {
    const Brd& expect = fixCalls == 0 ? gP : gAfter;
    if (!sameBoard(pos, expect)) fixBoardMismatch = true;
    pos.setEpSquare(Square(fixedEp(expect)));
    fixCalls++;
}

static RawBox<Position> qBox;
static RawBox<MoveList> mlBox;

// Build P (accepted, ep already fixed up), choose a legal move, produce Q with the real makeMove + fix-up.
static Position& setup(int& from, int& to, int& prom, UndoInfo& uiTrue) {
    int j; symbolicBoard(gP, j);
    ASSUME(fixedEp(gP) == gP.ep);                        // P is a position as the tool holds it (ep square already fixed up)
    from = gP.men[j].s; to = nondet_int(); prom = nondet_int();
    ASSUME(to >= 0 && to < 64 && prom >= 0 && prom <= 12);
    if (j < 2) ASSUME((moveClass == 1) == (iabs((to & 7) - (from & 7)) == 2));
    bool gc; ASSUME(legalMove(gP, from, to, prom, gc));
    bool epCap, castleMove; pseudoLegal(gP, from, to, prom, epCap, castleMove);
    play(gP, from, to, prom, epCap, castleMove, gAfter);
    gAfter.castle = castleAfter(gP, from, to); gAfter.ep = epAfter(gP, from, to);
    Position& p = buildPos(gP);
    Position& q = qBox.obj;
    (PositionBase&)q = (PositionBase&)p; q.nnEval = nullptr;
    Move m(Square(from), Square(to), prom);
    UndoInfo ui;
    q.makeMove(m, ui);                                    // real
    uiTrue.capturedPiece = ui.capturedPiece; uiTrue.castleMask = gP.castle; uiTrue.epSquare = Square(gP.ep); uiTrue.halfMoveClock = 0;
    q.setEpSquare(Square(fixedEp(gAfter)));               // the tool's fix-up after every move (specification)
    return q;
}

extern "C" {

// O2: the played move is among the raw un-moves of Q
void h_contains(void) {
    int from, to, prom; UndoInfo ui;
    Position& q = setup(from, to, prom, ui);
    ASSUME(!q.getEpSquare().isValid());                   // with an ep square genMoves() takes the double-push shortcut instead
    nrr = 0; rrOverflow = false;
    MoveList& ml = mlBox.obj; ml.size = 0;
    RevMoveGen::genMovesNoUndoInfo(q, ml);               // real
    verif_observe(nrr);
    CHECK(!rrOverflow, "bounded number of helper calls");
    int n = 0;
    for (int k = 0; k < MAXRR; k++) if (k < nrr && rr[k].to == to && rr[k].prom == prom && ((rr[k].fromMask >> from) & 1)) n++;
    CHECK(n >= 1, "the move that was played is among the un-moves of the resulting position");
    CHECK(n <= 1, "and it is listed once");
    END();
}

// O1: the true predecessor is never statically rejected, and it is rebuilt exactly
void h_notinvalid(void) {
    int from, to, prom; UndoInfo ui;
    Position& q = setup(from, to, prom, ui);
    // gAfter with the fixed-up ep square is what knownInvalid compares against
    fixCalls = 0; fixBoardMismatch = false;
    Move m(Square(from), Square(to), prom);
    bool inv = RevMoveGen::knownInvalid(q, m, ui);       // real (fixupEPSquare = specification stub)
    verif_observe(inv);
    CHECK(!fixBoardMismatch, "unMakeMove with the true undo information rebuilds exactly the predecessor (board, side, castling rights, ep square), and making the move again gives the successor");
    CHECK(!inv, "a true predecessor is never rejected as impossible");
    END();
}

// O3: soundness of the raw un-move list: every listed (from <- to) can be the reverse of SOME move: the square the piece returns
// to is empty, the piece belongs to the side that just moved, the geometry fits its kind on Q's occupancy, un-castling and
// un-promotion conditions hold.  (Necessary conditions for "every un-move restores a position in which the move is legal".)
void h_rawsound(void) {
    Brd q; bool wtm = (verif_param() & 1) != 0;
    symbolicBoardAnyMover(q, wtm);
    ASSUME(q.ep == -1);
    Position& pos = buildPos(q);
    nrr = 0; rrOverflow = false;
    MoveList& ml = mlBox.obj; ml.size = 0;
    RevMoveGen::genMovesNoUndoInfo(pos, ml);             // real
    verif_observe(nrr);
    CHECK(!rrOverflow, "bounded number of helper calls");
    int from = nondet_int(), k = nondet_int();
    ASSUME(from >= 0 && from < 64 && k >= 0 && k < MAXRR && k < nrr && ((rr[k].fromMask >> from) & 1));
    int to = rr[k].to, prom = rr[k].prom;
    bool moverWhite = !q.wtm;                             // the side that made the last move
    int pc = pieceAt(q, to);
    CHECK(pieceAt(q, from) == 0, "the square the piece returns to is empty");
    CHECK(pc != 0 && isW(pc) == moverWhite, "the un-moved piece belongs to the side that just moved");
    int fx = from & 7, fy = from >> 3, tx = to & 7, ty = to >> 3, dx = tx - fx, dy = ty - fy, adx = iabs(dx), ady = iabs(dy);
    int kind = prom ? 6 : kindOf(pc);
    if (prom) {
        CHECK(prom == pc && kindOf(pc) >= 2 && kindOf(pc) <= 5, "un-promotion only of a queen/rook/bishop/knight standing there");
        CHECK(ty == (moverWhite ? 7 : 0), "un-promotion only from the last rank");
    }
    switch (kind) {
    case 1:
        if (adx <= 1 && ady <= 1) break;
        {   int k0 = moverWhite ? E1 : E8; int rook = moverWhite ? Piece::WROOK : Piece::BROOK;
            CHECK(from == k0 && dy == 0 && adx == 2, "a two-square king un-move is an un-castling to the home square");
            if (dx == 2) CHECK(pieceAt(q, k0 + 1) == rook && pieceAt(q, k0 + 3) == 0, "un-castling short: rook on f, h empty");
            else CHECK(pieceAt(q, k0 - 1) == rook && pieceAt(q, k0 - 4) == 0 && pieceAt(q, k0 - 3) == 0, "un-castling long: rook on d, a and b empty");
        }
        break;
    case 2: CHECK(onLine(from, to, true, true) && pathClear(q, to, from), "queen un-move along a clear line"); break;
    case 3: CHECK(onLine(from, to, false, true) && pathClear(q, to, from), "rook un-move along a clear line"); break;
    case 4: CHECK(onLine(from, to, true, false) && pathClear(q, to, from), "bishop un-move along a clear diagonal"); break;
    case 5: CHECK((adx == 1 && ady == 2) || (adx == 2 && ady == 1), "knight un-move"); break;
    case 6: {
        int dir = moverWhite ? 1 : -1;
        bool single = dx == 0 && dy == dir, dbl = dx == 0 && dy == 2 * dir && fy == (moverWhite ? 1 : 6) && pieceAt(q, from + 8 * dir) == 0, diag = adx == 1 && dy == dir;
        CHECK(single || dbl || diag, "pawn un-move: one step, a double step from the home rank over an empty square, or a capture step");
        CHECK(fy >= 1 && fy <= 6, "a pawn never returns to the first or last rank");
        break; }
    default: CHECK(false, "piece kind");
    }
    END();
}

#ifdef LAMBDAS
// ---- O4: the undo-information choices of RevMoveGen::genMoves.  The five lambdas inside genMoves are internal functions of the translation unit; the pipeline
// finds their symbol names in the IR (Unit.discover) and the harness calls the REAL functions through asm labels.  For a true (P, m, Q):
//   validCapturePiece accepts the piece that was really captured; getBaseCastleMask <= castling rights of P <= base | getCastleAddMask, and every right offered has
//   king and rook at home in P; getEpMask offers "no ep square" resp. the ep file of P, and every file offered is an ep square the FEN reader would accept for P.
struct Clo { void* p; };
bool lam_validCapturePiece(Clo*, const Position&, const Move&, int movingPiece, int captPiece) __asm__(LAM_VALIDCAP);
int  lam_getBaseCastleMask(Clo*, const Position&, const Move&, int movingPiece) __asm__(LAM_BASE);
int  lam_getCastleAddMask(Clo*, const Position&, const Move&, int movingPiece, int capturedPiece) __asm__(LAM_ADD);
int  lam_getEpMask(Clo*, const Position&, const Move&, int movingPiece, int capturedPiece, bool all) __asm__(LAM_EPMASK);
void h_undoinfo(void) {
    int from, to, prom; UndoInfo ui;
    Position& q = setup(from, to, prom, ui);
    bool epCap, castleMove; pseudoLegal(gP, from, to, prom, epCap, castleMove);
    bool moverWhite = gP.wtm;
    // P is reachable by play: an en-passant square lies behind a pawn that has just made a double push, so the push's origin square is empty
    // (the FEN-acceptance domain of the oracle does not demand this; genMoves rightly does)
    if (gP.ep != -1) ASSUME(pieceAt(gP, gP.ep + (moverWhite ? 8 : -8)) == 0);
    Move m(Square(from), Square(to), prom);
    int movingPiece = prom ? (moverWhite ? Piece::WPAWN : Piece::BPAWN) : q.getPiece(Square(to));     // as genMoves computes it
    int captured = ui.capturedPiece;
    int p0 = captured == 0 ? 0 : (captured > 6 ? captured - 6 : captured);                            // genMoves iterates over the white codes
    char dummy = 0; Clo self{&dummy}; Clo selfEp{&self};
    // captured piece
    bool okCap = lam_validCapturePiece(&self, q, m, movingPiece, p0);                                 // real
    verif_observe(okCap);
    CHECK(okCap, "the piece that was really captured is among the captured-piece candidates");
    CHECK((moverWhite ? (captured == 0 || captured > 6) : (captured <= 6)), "captured piece has the other colour");
    // castling rights
    int base = lam_getBaseCastleMask(&self, q, m, movingPiece);                                        // real
    int add = lam_getCastleAddMask(&self, q, m, movingPiece, captured);                                // real
    verif_observe(base); verif_observe(add);
    CHECK((base & ~gP.castle) == 0, "every castling right taken as certain was held by the predecessor");
    CHECK((gP.castle & ~(base | add)) == 0, "the predecessor's castling rights are among the combinations tried");
    {   int all = base | add; bool home = true;
        if (all & 1) home = home && pieceAt(gP, E1) == Piece::WKING && pieceAt(gP, A1) == Piece::WROOK;
        if (all & 2) home = home && pieceAt(gP, E1) == Piece::WKING && pieceAt(gP, H1) == Piece::WROOK;
        if (all & 4) home = home && pieceAt(gP, E8) == Piece::BKING && pieceAt(gP, A8) == Piece::BROOK;
        if (all & 8) home = home && pieceAt(gP, E8) == Piece::BKING && pieceAt(gP, H8) == Piece::BROOK;
        CHECK(home, "every castling right offered has king and rook at home in the predecessor"); }
    // en-passant square
    bool allEp = nondet_bool();
    int mask = lam_getEpMask(&selfEp, q, m, movingPiece, captured, allEp);                             // real
    verif_observe(mask);
    if (gP.ep == -1) CHECK((mask >> 8) & 1, "'no en-passant square' is offered when the predecessor had none");
    else if (allEp || epCap) CHECK((mask >> (gP.ep & 7)) & 1, "the predecessor's en-passant file is offered");
    if (epCap) CHECK(to == gP.ep, "an en-passant capture lands on the predecessor's en-passant square");
    {   int y = moverWhite ? 5 : 2, dy = moverWhite ? 1 : -1; int pawn = moverWhite ? Piece::WPAWN : Piece::BPAWN, oPawn = moverWhite ? Piece::BPAWN : Piece::WPAWN;
        bool sound = true;
        for (int x = 0; x < 8; x++) if ((mask >> x) & 1) {
            bool ok = pieceAt(gP, x + 8 * (y + dy)) == 0 && pieceAt(gP, x + 8 * y) == 0 && pieceAt(gP, x + 8 * (y - dy)) == oPawn &&
                      ((x > 0 && pieceAt(gP, x - 1 + 8 * (y - dy)) == pawn) || (x < 7 && pieceAt(gP, x + 1 + 8 * (y - dy)) == pawn));
            sound = sound && ok; }
        CHECK(sound, "every en-passant file offered is a square a double push could have just created in the predecessor, with a pawn next to it"); }
    END();
}
#endif

} // extern "C"
