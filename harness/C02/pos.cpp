// C02 - Position state under make/unmake: one inductive step from an arbitrary state (frame encoding),
// single-square primitives, search-style edits, from-scratch hash, compact serialisation, MatId arithmetic.
// Real code under test: lib/texellib/position.{hpp,cpp}, material.{hpp,cpp}, undoInfo.hpp
#include "bitBoard.cpp"
#include "material.cpp"
#include "position.cpp"
#include "verif.h"

// environment: the two parameter objects position.cpp reads (defined in parameters.cpp, which drags in the whole UCI layer)
int pieceValue[Piece::nPieceTypes];
DEFINE_PARAM(kV);

static inline bool isW(int p) { return p >= 1 && p <= 6; }
static inline bool isB(int p) { return p >= 7 && p <= 12; }
static inline bool isPawn(int p) { return p == Piece::WPAWN || p == Piece::BPAWN; }

// The representation invariant at one square w (pieceTypeBB_[EMPTY] is not maintained by the engine and never read).
static bool localInv(const PositionBase& s, int w) {
    int p = s.squares[Square(w)];
    if (p < 0 || p > 12) return false;
    bool ok = true;
    for (int q = 1; q < 13; q++) ok = ok && (((s.pieceTypeBB_[q] >> w) & 1) == (U64)(p == q));
    ok = ok && (((s.whiteBB_ >> w) & 1) == (U64)isW(p)) && (((s.blackBB_ >> w) & 1) == (U64)isB(p));
    return ok;
}

static RawBox<Position> posBox;
static Position& rawPos(const PositionBase& b) {
    Position& pos = posBox.obj;
    (PositionBase&)pos = b;
    pos.nnEval = nullptr;            // evaluator not connected (C07 covers the evaluator bookkeeping)
    return pos;
}

// Material that legal play can produce: one king each, <= 8 pawns, promoted pieces <= missing pawns.
static bool legalMaterial(const int cnt[13]) {
    bool ok = true;
    for (int q = 0; q < 13; q++) ok = ok && cnt[q] >= 0 && cnt[q] <= 10;
    ok = ok && cnt[Piece::WKING] == 1 && cnt[Piece::BKING] == 1 && cnt[Piece::WPAWN] <= 8 && cnt[Piece::BPAWN] <= 8;
    int wProm = (cnt[2] > 1 ? cnt[2] - 1 : 0) + (cnt[3] > 2 ? cnt[3] - 2 : 0) + (cnt[4] > 2 ? cnt[4] - 2 : 0) + (cnt[5] > 2 ? cnt[5] - 2 : 0);
    int bProm = (cnt[8] > 1 ? cnt[8] - 1 : 0) + (cnt[9] > 2 ? cnt[9] - 2 : 0) + (cnt[10] > 2 ? cnt[10] - 2 : 0) + (cnt[11] > 2 ? cnt[11] - 2 : 0);
    return ok && wProm + cnt[Piece::WPAWN] <= 8 && bProm + cnt[Piece::BPAWN] <= 8;
}
// Symbolic legal piece counts; returns the material signature they imply.
static unsigned legalCounts(int cnt[13]) {
    unsigned mid = 0;
    for (int q = 0; q < 13; q++) { cnt[q] = nondet_int(); ASSUME(cnt[q] >= 0 && cnt[q] <= 10); mid += (unsigned)MatId::materialId[q] * (unsigned)cnt[q]; }
    ASSUME(legalMaterial(cnt));
    return mid;
}

static void symbolicState(PositionBase& pre, int cnt[13], unsigned& mid) {
    for (int i = 0; i < 64; i++) pre.squares[Square(i)] = nondet_int();
    for (int q = 0; q < 13; q++) pre.pieceTypeBB_[q] = nondet_u64();
    pre.whiteBB_ = nondet_u64(); pre.blackBB_ = nondet_u64();
    pre.whiteMove = nondet_bool();
    pre.halfMoveClock = nondet_int(); pre.fullMoveCounter = nondet_int();
    pre.castleMask = nondet_int(); pre.epSquare = Square(nondet_int());
    pre.hashKey = nondet_u64(); pre.pHashKey = nondet_u64();
    pre.wMtrl_ = nondet_int(); pre.bMtrl_ = nondet_int(); pre.wMtrlPawns_ = nondet_int(); pre.bMtrlPawns_ = nondet_int();
    for (int i = 0; i < 13; i++) { ::pieceValue[i] = nondet_int(); ASSUME(::pieceValue[i] >= 0 && ::pieceValue[i] <= 20000); }
    ASSUME(pre.halfMoveClock >= 0 && pre.halfMoveClock <= 100000 && pre.fullMoveCounter >= 1 && pre.fullMoveCounter <= 1000000);
    ASSUME(pre.castleMask >= 0 && pre.castleMask <= 15);
    ASSUME(pre.wMtrl_ >= -20000 && pre.wMtrl_ <= 400000 && pre.bMtrl_ >= -20000 && pre.bMtrl_ <= 400000);
    ASSUME(pre.wMtrlPawns_ >= 0 && pre.wMtrlPawns_ <= 400000 && pre.bMtrlPawns_ >= 0 && pre.bMtrlPawns_ <= 400000);
    mid = legalCounts(cnt);
    pre.matId.hash = (int)mid;
}

// castle-right invariant: a right implies king and rook on their home squares (consistent at those squares)
static bool castleInv(const PositionBase& s) {
    bool ok = true;
    int c = s.castleMask;
    if (c & 3)  ok = ok && localInv(s, E1) && s.squares[Square(E1)] == Piece::WKING;
    if (c & 1)  ok = ok && localInv(s, A1) && s.squares[Square(A1)] == Piece::WROOK;
    if (c & 2)  ok = ok && localInv(s, H1) && s.squares[Square(H1)] == Piece::WROOK;
    if (c & 12) ok = ok && localInv(s, E8) && s.squares[Square(E8)] == Piece::BKING;
    if (c & 4)  ok = ok && localInv(s, A8) && s.squares[Square(A8)] == Piece::BROOK;
    if (c & 8)  ok = ok && localInv(s, H8) && s.squares[Square(H8)] == Piece::BROOK;
    return ok;
}
// en-passant invariant for side to move wtm: ep square on the right rank, empty, the double-pushed pawn in front of it
static bool epInv(const PositionBase& s) {
    int ep = s.epSquare.asInt();
    if (ep == -1) return true;
    bool wtm = s.whiteMove;
    if (!(wtm ? (ep >= 40 && ep <= 47) : (ep >= 16 && ep <= 23))) return false;
    int capSq = wtm ? ep - 8 : ep + 8;
    return localInv(s, ep) && localInv(s, capSq) && s.squares[Square(ep)] == 0 && s.squares[Square(capSq)] == (wtm ? Piece::BPAWN : Piece::WPAWN);
}

static bool sameState(const PositionBase& a, const PositionBase& b) {
    bool same = true;
    for (int i = 0; i < 64; i++) same = same && a.squares[Square(i)] == b.squares[Square(i)];
    for (int q = 1; q < 13; q++) same = same && a.pieceTypeBB_[q] == b.pieceTypeBB_[q];
    same = same && a.whiteBB_ == b.whiteBB_ && a.blackBB_ == b.blackBB_ && a.whiteMove == b.whiteMove;
    same = same && a.halfMoveClock == b.halfMoveClock && a.fullMoveCounter == b.fullMoveCounter;
    same = same && a.castleMask == b.castleMask && a.epSquare == b.epSquare;
    same = same && a.hashKey == b.hashKey && a.pHashKey == b.pHashKey && a.matId.hash == b.matId.hash;
    same = same && a.wMtrl_ == b.wMtrl_ && a.bMtrl_ == b.bMtrl_ && a.wMtrlPawns_ == b.wMtrlPawns_ && a.bMtrlPawns_ == b.bMtrlPawns_;
    return same;
}

// A board with men of any kind (any piece code 0..12, symbolic) on the four squares 4g..4g+3 of group g = verif_param() (0..15),
// the rest empty.  The hash / serialisation loops treat squares independently; with the squares concrete only four of the 64
// table look-ups per loop are symbolic (64 symbolic look-ups into the 13x64 key table gave a 28M-clause formula that no back
// end finished), and the 16 groups together put every piece code on every square.
#define NSPARSE 4
static int ms[NSPARSE], mp[NSPARSE];      // the men of the last sparse board (square, piece code; code 0 = nothing there)
static void sparseBoard(PositionBase& a) {
    int g = (int)verif_param() & 15;
    for (int k = 0; k < NSPARSE; k++) { ms[k] = 4 * g + k; mp[k] = nondet_int(); ASSUME(mp[k] >= 0 && mp[k] <= 12); }
    for (int i = 0; i < 64; i++) { int p = 0; for (int k = 0; k < NSPARSE; k++) if (ms[k] == i) p = mp[k]; a.squares[Square(i)] = p; }
}

extern "C" {

// ---- O2: material signature arithmetic has no undefined behaviour for any material legal play can produce
void h_matid(void) {
    int cnt[13];
    unsigned mid = legalCounts(cnt);
    MatId id; id.hash = (int)mid;
    int p = nondet_int(); ASSUME(p >= 0 && p <= 12);
    if (nondet_bool()) {
        // adding piece p keeps the material legal (a promotion - the pawn is removed first - or position set-up)
        int c2[13]; for (int q = 0; q < 13; q++) c2[q] = cnt[q];
        if (p != 0) c2[p]++;
        ASSUME(legalMaterial(c2));
        id.addPiece(p);                                   // real
        CHECK((unsigned)id() == mid + (unsigned)MatId::materialId[p], "addPiece adds the piece's id");
    } else {
        ASSUME(p == 0 || cnt[p] >= 1);
        id.removePiece(p);                                // real
        CHECK((unsigned)id() == mid - (unsigned)MatId::materialId[p], "removePiece subtracts the piece's id");
    }
    verif_observe((U64)(unsigned)id());
    // mirror swaps the colour halves
    int h = id();
    unsigned m = (unsigned)MatId::mirror(h);
    CHECK(m == (((unsigned)h >> 16) | (((unsigned)h & 0xffff) << 16)), "mirror swaps the 16-bit halves");
    END();
}

// ---- O1: one make/unmake step from an arbitrary state.  verif_param: 0..2 white {piece,king,pawn}, 3..5 black.
static void stepBody(bool checkMake, bool checkUndo, int lite = 0) {
    PositionBase pre; int cnt[13]; unsigned mid;
    symbolicState(pre, cnt, mid);
    int kind = (int)verif_param() % 3; bool wtm = verif_param() < 3;
    ASSUME(pre.whiteMove == wtm);
    int castle = pre.castleMask; int ep = pre.epSquare.asInt();
    int from = nondet_int(), to = nondet_int(), prom = nondet_int();
    ASSUME(from >= 0 && from < 64 && to >= 0 && to < 64 && from != to);
    ASSUME(localInv(pre, from) && localInv(pre, to));
    int p = pre.squares[Square(from)], c = pre.squares[Square(to)];
    ASSUME(wtm ? isW(p) : isB(p));
    ASSUME(!(wtm ? isW(c) : isB(c)) && c != Piece::WKING && c != Piece::BKING);
    ASSUME(cnt[p] >= 1 && (c == 0 || cnt[c] >= 1));
    ASSUME(castleInv(pre) && epInv(pre));
    int fx = from & 7, fy = from >> 3, tx = to & 7, ty = to >> 3, dx = tx - fx, dy = ty - fy;
    int aux[3] = {-1, -1, -1};
    bool pawn = isPawn(p), king = (p == Piece::WKING || p == Piece::BKING);
    ASSUME(kind == 2 ? pawn : kind == 1 ? king : (!pawn && !king));
    bool expectEp = false;
    if (ep != -1) ASSUME(cnt[wtm ? Piece::BPAWN : Piece::WPAWN] >= 1);
    if (pawn) {
        int dir = wtm ? 1 : -1;
        bool last = wtm ? ty == 7 : ty == 0;
        ASSUME(fy >= 1 && fy <= 6);
        if (last) ASSUME(wtm ? (prom >= Piece::WQUEEN && prom <= Piece::WKNIGHT) : (prom >= Piece::BQUEEN && prom <= Piece::BKNIGHT));
        else ASSUME(prom == 0);
        if (last) { // promotion keeps the material legal
            int c2[13]; for (int q = 0; q < 13; q++) c2[q] = cnt[q];
            c2[p]--; c2[prom]++;
            ASSUME(legalMaterial(c2));
        }
        if (dx == 0) {
            ASSUME(c == 0);
            bool dbl = dy == 2 * dir && fy == (wtm ? 1 : 6);
            ASSUME(dy == dir || dbl);
            if (dbl) {
                aux[0] = from + 8 * dir; ASSUME(localInv(pre, aux[0]) && pre.squares[Square(aux[0])] == 0);
                // oracle for the en-passant rule: the square is set iff an enemy pawn stands next to the destination
                int enemyPawn = wtm ? Piece::BPAWN : Piece::WPAWN;
                if (tx > 0) { ASSUME(localInv(pre, to - 1)); if (pre.squares[Square(to - 1)] == enemyPawn) expectEp = true; }
                if (tx < 7) { ASSUME(localInv(pre, to + 1)); if (pre.squares[Square(to + 1)] == enemyPawn) expectEp = true; }
                // (the code reads the enemy pawn set through BitBoard::epMaskW/B[file], i.e. exactly those two neighbours: C01-O1-leapers)
            }
        } else {
            ASSUME((dx == 1 || dx == -1) && dy == dir && (c != 0 || to == ep));
            if (c == 0) aux[0] = wtm ? to - 8 : to + 8;
        }
    } else {
        ASSUME(prom == 0);
        if (king) {
            bool step = dx >= -1 && dx <= 1 && dy >= -1 && dy <= 1;
            if (!step) {
                int k0 = wtm ? 4 : 60; int rook = wtm ? Piece::WROOK : Piece::BROOK;
                ASSUME(from == k0 && dy == 0 && (dx == 2 || dx == -2) && c == 0);
                if (dx == 2) { aux[0] = k0 + 1; aux[1] = k0 + 3; ASSUME((castle & (wtm ? 2 : 8)) != 0); }
                else { aux[0] = k0 - 1; aux[1] = k0 - 4; aux[2] = k0 - 3; ASSUME((castle & (wtm ? 1 : 4)) != 0); }
                for (int k = 0; k < 3; k++) if (aux[k] >= 0) ASSUME(localInv(pre, aux[k]));
                ASSUME(pre.squares[Square(aux[0])] == 0 && pre.squares[Square(aux[1])] == rook);
                if (aux[2] >= 0) ASSUME(pre.squares[Square(aux[2])] == 0);
                ASSUME(cnt[rook] >= 1);
            }
        }
    }
    Position& pos = rawPos(pre);
    Move m(Square(from), Square(to), prom);
    UndoInfo ui;
    if (lite == 2) {   // static-exchange pair makeSEEMove/unMakeSEEMove, run by Search::SEE on the live position (also for quiet moves): board-only, no promotion,
                       // no rook relocation, side flipped; the take-back must restore a bit-identical state
        pos.makeSEEMove(m, ui);                            // real
        const PositionBase& post = pos;
        int win[3] = {from, to, (pawn && dx != 0 && c == 0) ? aux[0] : -1};
        U64 wmask = 0; for (int k = 0; k < 3; k++) if (win[k] >= 0) wmask |= 1ULL << win[k];
        bool frame = true;
        for (int i = 0; i < 64; i++) if (!((wmask >> i) & 1)) frame = frame && post.squares[Square(i)] == pre.squares[Square(i)];
        for (int q = 1; q < 13; q++) frame = frame && ((post.pieceTypeBB_[q] ^ pre.pieceTypeBB_[q]) & ~wmask) == 0;
        frame = frame && ((post.whiteBB_ ^ pre.whiteBB_) & ~wmask) == 0 && ((post.blackBB_ ^ pre.blackBB_) & ~wmask) == 0;
        CHECK(frame, "makeSEEMove: nothing outside the move's squares changes");
        bool loc = true; for (int k = 0; k < 3; k++) if (win[k] >= 0) loc = loc && localInv(post, win[k]);
        CHECK(loc, "makeSEEMove: board array and piece sets agree on the move's squares");
        CHECK(post.squares[Square(from)] == 0 && post.squares[Square(to)] == p, "makeSEEMove: piece arrives (no promotion), origin empty");
        if (win[2] >= 0) CHECK(post.squares[Square(win[2])] == 0, "makeSEEMove: pawn captured en passant removed");
        CHECK(post.whiteMove == !pre.whiteMove && post.castleMask == pre.castleMask && post.epSquare == pre.epSquare && post.hashKey == pre.hashKey && post.pHashKey == pre.pHashKey &&
              post.matId.hash == pre.matId.hash && post.wMtrl_ == pre.wMtrl_ && post.bMtrl_ == pre.bMtrl_ && post.halfMoveClock == pre.halfMoveClock, "makeSEEMove flips the side and leaves rights, keys and material alone");
        CHECK(ui.capturedPiece == c, "undo record holds the captured piece");
        pos.unMakeSEEMove(m, ui);                          // real
        CHECK(sameState(post, pre), "unMakeSEEMove restores every field");
        return;
    }
    if (lite) pos.makeMoveB(m, ui); else
    pos.makeMove(m, ui);                                  // real
    const PositionBase& post = pos;
    if (lite) {   // board-only variant used by MoveGen::isLegal on the live position: board as after makeMove, everything else untouched, unMakeMoveB restores all
        int win[5] = {from, to, aux[0], aux[1], aux[2]};
        U64 wmask = 0; for (int k = 0; k < 5; k++) if (win[k] >= 0) wmask |= 1ULL << win[k];
        bool frame = true;
        for (int i = 0; i < 64; i++) if (!((wmask >> i) & 1)) frame = frame && post.squares[Square(i)] == pre.squares[Square(i)];
        for (int q = 1; q < 13; q++) frame = frame && ((post.pieceTypeBB_[q] ^ pre.pieceTypeBB_[q]) & ~wmask) == 0;
        frame = frame && ((post.whiteBB_ ^ pre.whiteBB_) & ~wmask) == 0 && ((post.blackBB_ ^ pre.blackBB_) & ~wmask) == 0;
        CHECK(frame, "makeMoveB: nothing outside the move's squares changes");
        bool loc = true; for (int k = 0; k < 5; k++) if (win[k] >= 0) loc = loc && localInv(post, win[k]);
        CHECK(loc, "makeMoveB: board array and piece sets agree on the move's squares");
        CHECK(post.squares[Square(from)] == 0 && post.squares[Square(to)] == (prom ? prom : p), "makeMoveB: piece (or promoted piece) arrives, origin empty");
        if (pawn && dx != 0 && c == 0) CHECK(post.squares[Square(aux[0])] == 0, "makeMoveB: pawn captured en passant removed");
        if (king && (dx == 2 || dx == -2)) CHECK(post.squares[Square(aux[0])] == (wtm ? Piece::WROOK : Piece::BROOK) && post.squares[Square(aux[1])] == 0, "makeMoveB: castling rook moved");
        CHECK(post.whiteMove == pre.whiteMove && post.castleMask == pre.castleMask && post.epSquare == pre.epSquare && post.hashKey == pre.hashKey && post.pHashKey == pre.pHashKey &&
              post.matId.hash == pre.matId.hash && post.wMtrl_ == pre.wMtrl_ && post.bMtrl_ == pre.bMtrl_ && post.halfMoveClock == pre.halfMoveClock, "makeMoveB leaves side, rights, keys and material alone");
        pos.unMakeMoveB(m, ui);                           // real
        CHECK(sameState(post, pre), "unMakeMoveB restores every field");
        return;
    }
    verif_observe(post.hashKey); verif_observe(post.pHashKey); verif_observe((U64)(unsigned)post.matId.hash);

    if (checkMake) {
    int win[5] = {from, to, aux[0], aux[1], aux[2]};
    U64 wmask = 0; for (int k = 0; k < 5; k++) if (win[k] >= 0) wmask |= 1ULL << win[k];
    // (i) frame: nothing outside the window changes
    bool frame = true;
    for (int i = 0; i < 64; i++) if (!((wmask >> i) & 1)) frame = frame && post.squares[Square(i)] == pre.squares[Square(i)];
    for (int q = 1; q < 13; q++) frame = frame && ((post.pieceTypeBB_[q] ^ pre.pieceTypeBB_[q]) & ~wmask) == 0;
    frame = frame && ((post.whiteBB_ ^ pre.whiteBB_) & ~wmask) == 0 && ((post.blackBB_ ^ pre.blackBB_) & ~wmask) == 0;
    CHECK(frame, "frame: squares and piece sets outside the move's window are untouched");
    // (ii)+(iii) local invariant re-established inside the window, and every running sum moved by the window's delta
    U64 dh = 0, dph = 0; unsigned dmid = 0; int dwM = 0, dbM = 0, dwP = 0, dbP = 0; U64 seen = 0;
    bool loc = true;
    for (int k = 0; k < 5; k++) {
        int w = win[k];
        if (w < 0 || ((seen >> w) & 1)) continue;
        seen |= 1ULL << w;
        loc = loc && localInv(post, w);
        int a = pre.squares[Square(w)], b = post.squares[Square(w)];
        if (b < 0 || b > 12) { loc = false; continue; }
        dh ^= Position::psHashKeys[a][Square(w)] ^ Position::psHashKeys[b][Square(w)];
        if (isPawn(a)) dph ^= Position::psHashKeys[a][Square(w)];
        if (isPawn(b)) dph ^= Position::psHashKeys[b][Square(w)];
        dmid += (unsigned)MatId::materialId[b] - (unsigned)MatId::materialId[a];
        if (isW(a)) { dwM -= ::pieceValue[a]; if (a == Piece::WPAWN) dwP -= ::pieceValue[a]; }
        if (isB(a)) { dbM -= ::pieceValue[a]; if (a == Piece::BPAWN) dbP -= ::pieceValue[a]; }
        if (isW(b)) { dwM += ::pieceValue[b]; if (b == Piece::WPAWN) dwP += ::pieceValue[b]; }
        if (isB(b)) { dbM += ::pieceValue[b]; if (b == Piece::BPAWN) dbP += ::pieceValue[b]; }
    }
    CHECK(loc, "piece sets agree with the board on every touched square");
    int ep2 = post.epSquare.asInt();
    U64 expectH = pre.hashKey ^ Position::whiteHashKey ^ dh
                ^ Position::castleHashKeys[pre.castleMask] ^ Position::castleHashKeys[post.castleMask & 15]
                ^ Position::epHashKeys[ep >= 0 ? (ep & 7) + 1 : 0] ^ Position::epHashKeys[ep2 >= 0 ? (ep2 & 7) + 1 : 0];
    CHECK(post.hashKey == expectH, "hash key moved by exactly the delta of board, side, castling and en-passant file");
    CHECK(post.pHashKey == (pre.pHashKey ^ dph), "pawn hash key moved by exactly the pawn delta");
    CHECK((unsigned)post.matId.hash == mid + dmid, "material signature moved by exactly the delta");
    CHECK(post.wMtrl_ == pre.wMtrl_ + dwM && post.bMtrl_ == pre.bMtrl_ + dbM, "material totals");
    CHECK(post.wMtrlPawns_ == pre.wMtrlPawns_ + dwP && post.bMtrlPawns_ == pre.bMtrlPawns_ + dbP, "pawn material totals");
    // (iv) the rules of chess on the window
    CHECK(post.whiteMove == !wtm, "side to move flips");
    CHECK(post.squares[Square(from)] == 0, "origin square empty");
    CHECK(post.squares[Square(to)] == (prom != 0 ? prom : p), "destination holds the mover or the promotion piece");
    if (pawn && dx != 0 && c == 0) CHECK(post.squares[Square(aux[0])] == 0, "en-passant victim removed");
    if (king && (dx == 2 || dx == -2)) {
        int rook = wtm ? Piece::WROOK : Piece::BROOK;
        CHECK(post.squares[Square(aux[0])] == rook && post.squares[Square(aux[1])] == 0, "castling relocates the rook");
        if (aux[2] >= 0) CHECK(post.squares[Square(aux[2])] == 0, "b-file square stays empty");
    } else if (pawn && dx == 0 && (dy == 2 || dy == -2)) {
        CHECK(post.squares[Square(aux[0])] == 0, "skipped square stays empty");
    }
    {   // castling rights: lost exactly when a king/rook home square is the origin or destination
        int lost = 0;
        if (from == E1 || to == E1) lost |= 3; if (from == A1 || to == A1) lost |= 1; if (from == H1 || to == H1) lost |= 2;
        if (from == E8 || to == E8) lost |= 12; if (from == A8 || to == A8) lost |= 4; if (from == H8 || to == H8) lost |= 8;
        CHECK(post.castleMask == (castle & ~lost), "castling rights updated by the home-square rule");
    }
    CHECK(ep2 == ((pawn && dx == 0 && (dy == 2 || dy == -2) && expectEp) ? (from + to) / 2 : -1), "en-passant square set exactly after a double push next to an enemy pawn");
    CHECK(post.halfMoveClock == ((c != 0 || pawn) ? 0 : pre.halfMoveClock + 1), "half-move clock reset on capture/pawn move else incremented");
    CHECK(post.fullMoveCounter == pre.fullMoveCounter + (wtm ? 0 : 1), "full-move counter advances after black's move");
    CHECK(ui.capturedPiece == c && ui.castleMask == castle && ui.epSquare.asInt() == ep && ui.halfMoveClock == pre.halfMoveClock, "undo record holds the pre-state");
    // (v) inductiveness of the castle / en-passant invariants
    CHECK(castleInv(post), "castling right implies king and rook at home afterwards");
    CHECK(epInv(post), "en-passant square consistent afterwards");
    }
    // (vi) unmake restores a bit-identical state
    if (checkUndo) {
        pos.unMakeMove(m, ui);                            // real
        CHECK(sameState(post, pre), "unMakeMove restores every field");
    }
}
void h_step(void) { stepBody(true, false); END(); }      // makeMove: frame, invariant, deltas, rules
void h_undo(void) { stepBody(false, true); END(); }
void h_undoB(void) { stepBody(false, false, 1); END(); } // makeMoveB / unMakeMoveB (legality filter's board-only pair)
void h_undoSEE(void) { stepBody(false, false, 2); END(); } // makeSEEMove / unMakeSEEMove (static exchange evaluation's pair)      // makeMove followed by unMakeMove: bit-identical state

// ---- O3: single-square primitives from an arbitrary state
void h_setpiece(void) {
    PositionBase pre; int cnt[13]; unsigned mid;
    symbolicState(pre, cnt, mid);
    int sq = nondet_int(), sq2 = nondet_int(), np = nondet_int(), which = (int)verif_param();
    ASSUME(sq >= 0 && sq < 64 && sq2 >= 0 && sq2 < 64 && sq != sq2 && np >= 0 && np <= 12);
    ASSUME(localInv(pre, sq) && localInv(pre, sq2));
    int old = pre.squares[Square(sq)];
    Position& pos = rawPos(pre);
    int win2 = -1, exp1 = 0, exp2 = 0;
    // material stays within what the signature can hold: counts legal before and after (np added, old removed)
    ASSUME(old == 0 || cnt[old] >= 1);
    if (which == 0) {            // setPiece
        { int c2[13]; for (int q = 0; q < 13; q++) c2[q] = cnt[q]; if (old) c2[old]--; if (np) c2[np]++; ASSUME(legalMaterial(c2) || (np == Piece::WKING || np == Piece::BKING || old == Piece::WKING || old == Piece::BKING)); 
          for (int q = 1; q < 13; q++) ASSUME(c2[q] <= 10); }
        pos.setPiece(Square(sq), np); exp1 = np;
    } else if (which == 1) {     // clearPiece
        pos.clearPiece(Square(sq)); exp1 = 0;
    } else {                     // movePieceNotPawn: non-pawn piece to an empty square
        ASSUME(old != 0 && !isPawn(old) && pre.squares[Square(sq2)] == 0);
        pos.movePieceNotPawn(Square(sq), Square(sq2)); exp1 = 0; exp2 = old; win2 = sq2;
    }
    const PositionBase& post = pos;
    verif_observe(post.hashKey);
    U64 wmask = (1ULL << sq) | (win2 >= 0 ? 1ULL << win2 : 0);
    bool frame = true;
    for (int i = 0; i < 64; i++) if (!((wmask >> i) & 1)) frame = frame && post.squares[Square(i)] == pre.squares[Square(i)];
    for (int q = 1; q < 13; q++) frame = frame && ((post.pieceTypeBB_[q] ^ pre.pieceTypeBB_[q]) & ~wmask) == 0;
    frame = frame && ((post.whiteBB_ ^ pre.whiteBB_) & ~wmask) == 0 && ((post.blackBB_ ^ pre.blackBB_) & ~wmask) == 0;
    CHECK(frame, "frame");
    CHECK(post.squares[Square(sq)] == exp1 && localInv(post, sq), "target square updated consistently");
    if (win2 >= 0) CHECK(post.squares[Square(win2)] == exp2 && localInv(post, win2), "destination updated consistently");
    U64 dh = Position::psHashKeys[old][Square(sq)] ^ Position::psHashKeys[exp1][Square(sq)];
    U64 dph = (isPawn(old) ? Position::psHashKeys[old][Square(sq)] : 0) ^ (isPawn(exp1) ? Position::psHashKeys[exp1][Square(sq)] : 0);
    unsigned dmid = (unsigned)MatId::materialId[exp1] - (unsigned)MatId::materialId[old];
    int dw = (isW(exp1) ? ::pieceValue[exp1] : 0) - (isW(old) ? ::pieceValue[old] : 0);
    int db = (isB(exp1) ? ::pieceValue[exp1] : 0) - (isB(old) ? ::pieceValue[old] : 0);
    int dwp = (exp1 == Piece::WPAWN ? ::pieceValue[exp1] : 0) - (old == Piece::WPAWN ? ::pieceValue[old] : 0);
    int dbp = (exp1 == Piece::BPAWN ? ::pieceValue[exp1] : 0) - (old == Piece::BPAWN ? ::pieceValue[old] : 0);
    if (win2 >= 0) { dh ^= Position::psHashKeys[exp2][Square(win2)]; dmid = 0; dw = db = dwp = dbp = 0; }
    CHECK(post.hashKey == (pre.hashKey ^ dh), "hash delta");
    CHECK(post.pHashKey == (pre.pHashKey ^ dph), "pawn hash delta");
    CHECK((unsigned)post.matId.hash == mid + dmid, "material signature delta");
    CHECK(post.wMtrl_ == pre.wMtrl_ + dw && post.bMtrl_ == pre.bMtrl_ + db && post.wMtrlPawns_ == pre.wMtrlPawns_ + dwp && post.bMtrlPawns_ == pre.bMtrlPawns_ + dbp, "material totals delta");
    CHECK(post.whiteMove == pre.whiteMove && post.castleMask == pre.castleMask && post.epSquare == pre.epSquare && post.halfMoveClock == pre.halfMoveClock && post.fullMoveCounter == pre.fullMoveCounter, "scalars untouched");
    END();
}

// ---- O4a: search-style edits of side / en-passant / castling: hash moves by the right key, reverting restores it
void h_edits(void) {
    PositionBase pre; int cnt[13]; unsigned mid;
    symbolicState(pre, cnt, mid);
    int ep = pre.epSquare.asInt();
    ASSUME(ep >= -1 && ep < 64);
    Position& pos = rawPos(pre);
    bool nw = nondet_bool(); int nc = nondet_int(), ne = nondet_int();
    ASSUME(nc >= 0 && nc <= 15 && ne >= -1 && ne < 64);
    pos.setWhiteMove(nw); pos.setCastleMask(nc); pos.setEpSquare(Square(ne));      // real
    const PositionBase& post = pos;
    verif_observe(post.hashKey);
    U64 expect = pre.hashKey ^ (nw != pre.whiteMove ? Position::whiteHashKey : 0)
               ^ Position::castleHashKeys[pre.castleMask] ^ Position::castleHashKeys[nc]
               ^ Position::epHashKeys[ep >= 0 ? (ep & 7) + 1 : 0] ^ Position::epHashKeys[ne >= 0 ? (ne & 7) + 1 : 0];
    CHECK(post.hashKey == expect, "hash follows side/castle/ep edits");
    CHECK(post.whiteMove == nw && post.castleMask == nc && post.epSquare.asInt() == ne, "fields set");
    pos.setWhiteMove(pre.whiteMove); pos.setCastleMask(pre.castleMask); pos.setEpSquare(pre.epSquare);
    CHECK(sameState(post, pre), "reverting the edits restores the state (null-move style)");
    END();
}

// ---- O5: from-scratch hash = independent XOR sum; depends only on what the repetition rule compares
void h_scratchhash(void) {
    PositionBase a;
    sparseBoard(a);
    a.whiteMove = nondet_bool(); a.castleMask = nondet_int(); a.epSquare = Square(nondet_int());
    ASSUME(a.castleMask >= 0 && a.castleMask <= 15 && a.epSquare.asInt() >= -1 && a.epSquare.asInt() < 64);
    a.hashKey = nondet_u64(); a.pHashKey = nondet_u64(); a.matId.hash = nondet_int();
    a.halfMoveClock = nondet_int(); a.fullMoveCounter = nondet_int();
    Position& pos = rawPos(a);
    U64 h = pos.computeZobristHash();                      // real
    verif_observe(h);
    // oracle over the men only: an empty square contributes the EMPTY key, which must be zero (checked for all 64 squares)
    U64 want = 0x5fd230cc43568439ULL, pw = 0x5fd230cc43568439ULL; unsigned mid = 0; bool emptyZero = true;
    for (int i = 0; i < 64; i++) emptyZero = emptyZero && Position::psHashKeys[Piece::EMPTY][Square(i)] == 0;
    CHECK(emptyZero, "the EMPTY piece-square keys are all zero");
    for (int k = 0; k < NSPARSE; k++) { int p = mp[k]; want ^= Position::psHashKeys[p][Square(ms[k])]; if (isPawn(p)) pw ^= Position::psHashKeys[p][Square(ms[k])]; mid += (unsigned)MatId::materialId[p]; }
    if (a.whiteMove) want ^= Position::whiteHashKey;
    want ^= Position::castleHashKeys[a.castleMask];
    want ^= Position::epHashKeys[a.epSquare.asInt() >= 0 ? (a.epSquare.asInt() & 7) + 1 : 0];
    const PositionBase& post = pos;
    CHECK(h == want && post.hashKey == want, "from-scratch hash is the XOR of piece-square, side, castle and ep-file keys");
    CHECK(post.pHashKey == pw, "from-scratch pawn hash");
    CHECK((unsigned)post.matId.hash == mid, "from-scratch material signature");
    END();
}

// ---- O6: compact serialisation round trip
void h_serialize(void) {
    PositionBase a;
    sparseBoard(a);
    a.whiteMove = nondet_bool(); a.castleMask = nondet_int(); a.epSquare = Square(nondet_int());
    a.halfMoveClock = nondet_int(); a.fullMoveCounter = nondet_int();
    ASSUME(a.castleMask >= 0 && a.castleMask <= 15 && a.epSquare.asInt() >= -1 && a.epSquare.asInt() < 64);
    ASSUME(a.halfMoveClock >= 0 && a.halfMoveClock <= 255 && a.fullMoveCounter >= 0 && a.fullMoveCounter <= 65535);   // stated limit of the format
    for (int i = 0; i < 13; i++) { ::pieceValue[i] = nondet_int(); ASSUME(::pieceValue[i] >= 0 && ::pieceValue[i] <= 20000); }
    Position& pos = rawPos(a);
    Position::SerializeData data;
    pos.serialize(data);                                  // real
    // scribble over the object, then read back
    PositionBase junk;
    for (int i = 0; i < 64; i++) junk.squares[Square(i)] = 3;
    junk.whiteMove = !a.whiteMove; junk.castleMask = 15 - a.castleMask; junk.epSquare = Square(5); junk.halfMoveClock = 7; junk.fullMoveCounter = 9;
    // the target object is a reused one: every derived field holds an arbitrary left-over value
    junk.wMtrl_ = nondet_int(); junk.bMtrl_ = nondet_int(); junk.wMtrlPawns_ = nondet_int(); junk.bMtrlPawns_ = nondet_int();
    for (int q = 0; q < 13; q++) junk.pieceTypeBB_[q] = nondet_u64();
    junk.whiteBB_ = nondet_u64(); junk.blackBB_ = nondet_u64(); junk.hashKey = nondet_u64(); junk.pHashKey = nondet_u64(); junk.matId.hash = nondet_int();
    Position& pos2 = rawPos(junk);
    pos2.deSerialize(data);                               // real
    const PositionBase& b = pos2;
    verif_observe(b.hashKey);
    bool same = true;
    for (int i = 0; i < 64; i++) same = same && b.squares[Square(i)] == a.squares[Square(i)];
    CHECK(same, "board round-trips");
    CHECK(b.whiteMove == a.whiteMove && b.castleMask == a.castleMask && b.epSquare == a.epSquare && b.halfMoveClock == a.halfMoveClock && b.fullMoveCounter == a.fullMoveCounter, "flags and counters round-trip");
    // derived fields equal their from-scratch values
    U64 want = 0x5fd230cc43568439ULL, pw = 0x5fd230cc43568439ULL; unsigned mid = 0; U64 bb[13] = {0}, wbb = 0, bbb = 0; int wm = -::kV, bm = -::kV, wp = 0, bp = 0;
    for (int k = 0; k < NSPARSE; k++) { int p = mp[k]; int i = ms[k]; if (p == 0) continue;
        want ^= Position::psHashKeys[p][Square(i)]; if (isPawn(p)) pw ^= Position::psHashKeys[p][Square(i)];
        mid += (unsigned)MatId::materialId[p]; for (int q = 1; q < 13; q++) if (p == q) bb[q] |= 1ULL << i;
        if (isW(p)) { wbb |= 1ULL << i; wm += ::pieceValue[p]; } if (isB(p)) { bbb |= 1ULL << i; bm += ::pieceValue[p]; }
        if (p == Piece::WPAWN) wp += ::pieceValue[p]; if (p == Piece::BPAWN) bp += ::pieceValue[p]; }
    if (a.whiteMove) want ^= Position::whiteHashKey;
    want ^= Position::castleHashKeys[a.castleMask] ^ Position::epHashKeys[a.epSquare.asInt() >= 0 ? (a.epSquare.asInt() & 7) + 1 : 0];
    CHECK(b.hashKey == want && b.pHashKey == pw && (unsigned)b.matId.hash == mid, "keys recomputed from scratch");
    bool bbs = b.whiteBB_ == wbb && b.blackBB_ == bbb; for (int q = 1; q < 13; q++) bbs = bbs && b.pieceTypeBB_[q] == bb[q];
    CHECK(bbs, "piece sets recomputed from scratch");
    CHECK(b.wMtrl_ == wm && b.bMtrl_ == bm && b.wMtrlPawns_ == wp && b.bMtrlPawns_ == bp, "material totals recomputed from scratch");
    END();
}

} // extern "C"
