// Loop-free / table-free models of leaf kernels.  A unit may redirect the real kernel to its model ONLY together with
// the lemma obligation that proves model == real code for every argument (C01-O1: h_rook/h_bishop for all squares and
// all 2^64 occupancies, h_bits for all masks).  The driver voids dependants when a lemma is not discharged.
#ifndef VERIF_MODELS_H
#define VERIF_MODELS_H
#include "bitBoard.hpp"
static inline U64 model_ray(U64 r, U64 occ, int sh, U64 mask) {
    U64 a = 0;
    for (int k = 0; k < 7; k++) {
        r = (sh > 0 ? (r << sh) : (r >> -sh)) & mask;
        a |= r;
        r &= ~occ;
    }
    return a;
}
extern "C" U64 model_rookAttacks(Square sq, U64 occ) {
    U64 r = 1ULL << sq.asInt();
    return model_ray(r, occ, 8, ~0ULL) | model_ray(r, occ, -8, ~0ULL) | model_ray(r, occ, 1, 0xFEFEFEFEFEFEFEFEULL) | model_ray(r, occ, -1, 0x7F7F7F7F7F7F7F7FULL);
}
extern "C" U64 model_bishopAttacks(Square sq, U64 occ) {
    U64 r = 1ULL << sq.asInt();
    return model_ray(r, occ, 9, 0xFEFEFEFEFEFEFEFEULL) | model_ray(r, occ, 7, 0x7F7F7F7F7F7F7F7FULL) | model_ray(r, occ, -7, 0xFEFEFEFEFEFEFEFEULL) | model_ray(r, occ, -9, 0x7F7F7F7F7F7F7F7FULL);
}
extern "C" int model_firstBit(U64 m) { return __builtin_ctzll(m); }        // callers guarantee m != 0 (as for the real one)
extern "C" int model_lastBit(U64 m) { return 63 - __builtin_clzll(m); }
extern "C" int model_bitCount(U64 m) { return __builtin_popcountll(m); }
#define MODEL_ALIASES_SLIDERS {'_ZN8BitBoard11rookAttacksE6Squarem': 'model_rookAttacks', '_ZN8BitBoard13bishopAttacksE6Squarem': 'model_bishopAttacks'}
#endif
