// Harness-side API: the same source is (a) lowered by clang and model-checked by CBMC and
// (b) compiled by g++ against the real code for witness/counterexample replay.
#ifndef VERIF_H
#define VERIF_H
#include <cstdint>
extern "C" {
uint64_t nondet_u64(void);
uint32_t nondet_u32(void);
int      nondet_int(void);
uint16_t nondet_u16(void);
uint8_t  nondet_u8(void);
bool     nondet_bool(void);
void __CPROVER_assume(bool);
void verif_assert(bool, const char* label);
void verif_observe(uint64_t);       // feeds the translation-validation digest (no-op under CBMC)
void verif_throw_event(void);
void verif_end(void);               // must be the last statement of every entry (reachability witness)
uint32_t verif_param(void);         // per-query constant (case splits), fixed by the driver
}
// Point a std::vector (libstdc++ layout) at caller-provided storage: n elements, capacity cap.
template <class V, class T> static inline void pointVec(V& v, T* p, int n, int cap) {
    v._M_impl._M_start = p; v._M_impl._M_finish = p + n; v._M_impl._M_end_of_storage = p + cap;
}
// Typed storage whose constructor/destructor are NOT run.  (A byte array reinterpret_cast to T forces CBMC into byte-level
// encodings of every access - orders of magnitude slower; measured on C20: no verdict in 900 s vs 128 s.)
template <class T> union RawBox { T obj; RawBox() {} ~RawBox() {} };
#define ASSUME(c) __CPROVER_assume(c)
#define CHECK(c, label) verif_assert((c), label)
#define END() verif_end()
#endif
