// C13 - tablebase knowledge merged into the search: on-demand probe branch of TBProbe::tbProbe with the
// 50-move margin, and Evaluate::swindleScore.
// Real code under test: lib/texellib/tb/tbprobe.cpp (tbProbe, rule50Margin, updateEvScore),
//                       lib/texellib/evaluate.cpp (swindleScore), transpositionTable.hpp (TTEntry).
#include "bitBoard.cpp"
#include "material.cpp"
#include "tbprobe.cpp"
#include "evaluate.cpp"
#include "verif.h"

typedef TranspositionTable::TTEntry TTEntry;
int Syzygy::TBLargest = 0;     // environment: no Syzygy tables loaded

// ---- stubs (part of the claim) ----
// tt.probeDTM: returns an arbitrary "found" flag and an arbitrary score of the form TBGenerator::probeDTM
// produces (C12-O4 decides that form): mate in n, mated in n, or draw.
static int stub_kind, stub_n; static bool stub_found;
extern "C" bool model_probeDTM(const TranspositionTable* tt, const Position& pos, int ply, int& score) {
    if (!stub_found) return false;
    if (stub_kind == 0) score = SearchConst::MATE0 - ply - stub_n * 2;
    else if (stub_kind == 1) score = -(SearchConst::MATE0 - ply - stub_n * 2 - 1);
    else score = 0;
    return true;
}
extern "C" double model_currentTime() { return 0.0; }

static RawBox<Position> posBox;
static RawBox<TranspositionTable> ttBox;

extern "C" {

void h_tbprobe(void) {
    Position& pos = posBox.obj;
    const TranspositionTable& tt = ttBox.obj;
    int ply = nondet_int(), hmc = nondet_int(), alpha = nondet_int(), beta = nondet_int(), nPieces = (int)verif_param();   // case split: 2, 3, 4 men
    ASSUME(ply >= 0 && ply <= 200 && hmc >= 0 && hmc <= 99);
    ASSUME(alpha >= -32000 && alpha <= 32000 && beta >= -32000 && beta <= 32000 && alpha < beta);
    ASSUME(nPieces >= 2 && nPieces <= 4);
    stub_found = nondet_bool(); stub_kind = nondet_int(); stub_n = nondet_int();
    ASSUME(stub_kind >= 0 && stub_kind <= 2 && stub_n >= 0 && stub_n <= 100);
    if (stub_kind == 0) ASSUME(stub_n >= 1);
    pos.halfMoveClock = hmc;
    // external (Gaviota/Syzygy) tablebases absent: this property is about the engine's own on-demand table
    gtbMaxPieces = 0; Syzygy::TBLargest = 0;
    TTEntry ent(nondet_u64(), nondet_u64());
    TTEntry ent0 = ent;
    int nodes = nondet_int(); ASSUME(nodes >= -1000000 && nodes <= 1000000);
    bool allowDTZ = nondet_bool(), allowExp = nondet_bool();
    bool r = TBProbe::tbProbe(pos, ply, alpha, beta, tt, ent, nPieces, allowDTZ, allowExp, nodes);   // real
    verif_observe(r); verif_observe(ent.getData());
    if (!stub_found) {
        CHECK(!r, "no table hit => no result");
        CHECK(ent.getData() == ent0.getData(), "entry untouched without a hit");
    } else {
        CHECK(r, "table hit => result");
        int pliesToMate = stub_kind == 0 ? 2 * stub_n - 1 : 2 * stub_n;   // plies until the mating move has been played
        int sc = ent.getScore(ply);
        if (stub_kind == 2) {
            CHECK(sc == 0 && ent.getType() == TType::T_EXACT, "draw => exact 0");
        } else if (hmc + pliesToMate <= 100) {
            int dtm = stub_kind == 0 ? SearchConst::MATE0 - ply - 2 * stub_n : -(SearchConst::MATE0 - ply - 2 * stub_n - 1);
            CHECK(ent.getType() == TType::T_EXACT && sc == dtm, "mate completed within the 50-move limit => exact distance-to-mate score");
            CHECK(ent.getEvalScore() == ent0.getEvalScore(), "eval score untouched for a real mate");
        } else {
            CHECK(sc == 0, "mate that cannot be completed before the 50-move limit is not announced as mate");
            CHECK(ent.getType() == (stub_kind == 0 ? TType::T_GE : TType::T_LE), "cursed win is a lower bound 0, blessed loss an upper bound 0");
            int over = hmc + pliesToMate - 100;                // > 0: plies beyond the limit
            int want = stub_kind == 0 ? over : -over;
            int old = ent0.getEvalScore();
            int absOld = old < 0 ? -old : old;
            if (old == 0 || over < absOld) CHECK(ent.getEvalScore() == want, "evalScore records the signed distance beyond the limit");
            else CHECK(ent.getEvalScore() == old, "a smaller recorded distance is kept");
        }
        if (!(SearchConst::isWinScore(sc) || SearchConst::isLoseScore(sc)))
            CHECK(stub_kind == 2 || hmc + pliesToMate > 100 || false, "non-mate score only for draws and cursed results");
    }
    END();
}

// ---- O1b: the two inline entry points the search calls (tbprobe.hpp:184-215): with no external tablebase files (maxPieces = 4, as TBProbe::initialize sets
//      it) every position of 2..4 men reaches the on-demand probe at any search depth, a position of 5 or more men never does
static int gMen;
int model_nPieces(const Position* self) { return gMen; }
void h_tbprobe_entry(void) {
    Position& pos = posBox.obj;
    const TranspositionTable& tt = ttBox.obj;
    bool withDepth = (verif_param() & 1) != 0;
    gMen = (int)(verif_param() >> 1);                    // case split: 2..5 men (Position::nPieces = popcount of the occupancy: stubbed to this constant)
    gtbMaxPieces = 0; Syzygy::TBLargest = 0; TBProbeData::maxPieces = 4;
    int ply = nondet_int(), hmc = nondet_int(), alpha = nondet_int(), beta = nondet_int(), depth = nondet_int();
    ASSUME(ply >= 0 && ply <= 200 && hmc >= 0 && hmc <= 99 && depth >= -10 && depth <= 200);
    ASSUME(alpha >= -32000 && alpha <= 32000 && beta >= -32000 && beta <= 32000 && alpha < beta);
    pos.halfMoveClock = hmc;
    stub_found = true; stub_kind = nondet_int(); stub_n = nondet_int();
    ASSUME(stub_kind >= 0 && stub_kind <= 2 && stub_n >= 0 && stub_n <= 100);
    if (stub_kind == 0) ASSUME(stub_n >= 1);
    TTEntry ent(nondet_u64(), nondet_u64());
    int nodes = 0;
    bool r = withDepth ? TBProbe::tbProbe(pos, ply, alpha, beta, depth, tt, ent, nodes) : TBProbe::tbProbe(pos, ply, alpha, beta, tt, ent);   // real
    verif_observe(r);
    if (gMen <= 4) CHECK(r, "a position of up to four men is looked up in the on-demand table, at every search depth");
    else CHECK(!r, "more men than any available table: no probe");
    END();
}

// wrapper used by the search: nPieces from the position, DTZ allowed; same on-demand branch
void h_swindle(void) {
    int ev = nondet_int(), d = nondet_int(), ev2 = nondet_int(), d2 = nondet_int();
    ASSUME(ev >= -32767 && ev <= 32767 && d >= -1000 && d <= 1000 && ev2 >= -32767 && ev2 <= 32767 && d2 >= -1000 && d2 <= 1000);
    int r = Evaluate::swindleScore(ev, d);               // real
    verif_observe((U64)(unsigned)r);
    int a = r < 0 ? -r : r;
    CHECK(a <= SearchConst::maxFrustrated, "|swindle score| <= maxFrustrated");
    CHECK(!SearchConst::isWinScore(r) && !SearchConst::isLoseScore(r), "never a mate score");
    if (d == 0) {
        CHECK(a < SearchConst::minFrustrated, "no tablebase distance => below the frustrated-win band");
        CHECK(ev >= 0 ? r >= 0 : r <= 0, "sign follows the evaluation");
        int r2 = Evaluate::swindleScore(ev2, 0);
        int a1 = ev < 0 ? -ev : ev, a2 = ev2 < 0 ? -ev2 : ev2, b2 = r2 < 0 ? -r2 : r2;
        if (a1 <= a2) CHECK(a <= b2, "monotone in |evaluation|");
    } else {
        CHECK(a >= SearchConst::minFrustrated, "frustrated win/loss lies in the frustrated band");
        CHECK(d > 0 ? r > 0 : r < 0, "sign follows the side that would win without the 50-move rule");
        int r2 = Evaluate::swindleScore(ev2, d2);
        if (d2 != 0) {
            int a1 = d < 0 ? -d : d, a2 = d2 < 0 ? -d2 : d2, b2 = r2 < 0 ? -r2 : r2;
            if (a1 <= a2) CHECK(a >= b2, "closer to a real win scores at least as high");
        }
    }
    END();
}

} // extern "C"
