// C06 - time limits, part 2: the periodic stop test Search::shouldStop with a symbolic clock.
// Real code under test: lib/texellib/search.cpp (Search::shouldStop, Search::timeLimit), search.hpp (getTotalNodes).
#include "search.cpp"
#include "verif.h"

template <class T> union Raw { T obj; Raw() {} ~Raw() {} };

DEFINE_PARAM(minTimeUsage);      // storage of the parameter read by Search::timeLimit (parameters.cpp is not in this unit)

// ---- environment stubs (part of the claim) ----
static S64 clockVal[2]; static int clockReads;             // the clock: two successive readings, non-decreasing
static int statsCalls, sleepCalls; static S64 sleptMs;
extern "C" {
S64 model_currentTimeMillis() { S64 v = clockVal[clockReads < 2 ? clockReads : 1]; clockReads++; return v; }
void model_poll(Communicator* c, Communicator::CommandHandler& h) { }            // no helper-thread result arrives
void model_notifyStats(Search* s) { statsCalls++; }
void model_sleep_for(const std::chrono::duration<long, std::ratio<1, 1000>>& d) { sleepCalls++; sleptMs = d.count(); }
}

static Raw<Search> searchMem;
static Raw<ThreadCommunicator> commMem;

struct StopIn { S64 tStart, now, soft, hard; int esp; bool needMore; double hf; S64 maxNodes, nodes; bool ret; };

// Build an arbitrary search state, evaluate the real predicate once.
//   limits: 0 = any pair the engine can install (O1/O2): (-1,-1) or 0 <= soft <= hard < 2^31
static StopIn evalStop(bool nodeLimit, bool throttle) {
    Search& s = searchMem.obj;
    ThreadCommunicator& comm = commMem.obj;
    // reference member 'comm' sits right before 'jobId' (search.hpp)
    *reinterpret_cast<void**>(reinterpret_cast<unsigned char*>(&s.jobId) - sizeof(void*)) = &comm;
    StopIn in;
    in.tStart = (S64)nondet_u64(); in.now = (S64)nondet_u64(); S64 now2 = (S64)nondet_u64();
    ASSUME(in.tStart >= 0 && in.tStart <= in.now && in.now <= now2 && now2 < (1LL << 53));    // monotonic millisecond clock
    ASSUME(in.now - in.tStart < (1LL << 36));                                                 // a search lasts < 2 years
    ASSUME(now2 - in.tStart < (1LL << 36));
    in.soft = (int)nondet_int(); in.hard = (int)nondet_int();
    ASSUME((in.soft == -1 && in.hard == -1) || (in.soft >= 0 && in.soft <= in.hard));
    in.esp = nondet_int(); ASSUME(in.esp >= 1 && in.esp <= 10000);
    in.needMore = nondet_bool();
    uint64_t hfBits = nondet_u64(); memcpy(&in.hf, &hfBits, 8);
    ASSUME(in.hf >= 0.3 && in.hf <= 3.5);                                                     // invariant of hardFactor (search.cpp:149,220,229,273)
    in.maxNodes = nodeLimit ? (S64)(nondet_u64() >> 14) : -1;
    S64 own = (S64)(nondet_u64() >> 14), others = (S64)(nondet_u64() >> 14);                  // node counters < 2^50
    in.nodes = own + others;
    s.tStart = in.tStart;
    s.minTimeMillis = in.soft; s.maxTimeMillis = in.hard; s.earlyStopPercentage = in.esp;
    s.searchNeedMoreTime = in.needMore; s.hardFactor = in.hf; s.maxNodes = in.maxNodes;
    s.totalNodes = own; comm.nodesSearched = others;
    if (throttle) { s.maxNPS = nondet_int(); ASSUME(s.maxNPS >= 1 && s.maxNPS <= 10000000); }  // UCI range of MaxNPS
    else s.maxNPS = 0;
    s.tLastStats = (S64)nondet_u64(); ASSUME(s.tLastStats >= 0 && s.tLastStats <= in.now);
    s.jobId = nondet_int();
    clockVal[0] = in.now; clockVal[1] = now2; clockReads = 0; statsCalls = sleepCalls = 0;
    in.ret = s.shouldStop();                                   // real
    verif_observe(in.ret);
    CHECK(clockReads >= 1 && clockReads <= 2, "the clock is read once (twice when NPS throttling is on)");
    return in;
}

extern "C" {

// ---- O3a: the deadline side (what the property needs): for every clock value one evaluation of the predicate stops the
//      search when the hard limit is reached, at once for (0,0), never without limits; and where no floating point is
//      involved (search needs more time / early stop disabled) the verdict is exactly "elapsed >= limit".
void h_stop_time(void) {
    StopIn in = evalStop(false, verif_param() == 1);
    S64 elapsed = in.now - in.tStart;
    if (in.hard >= 0 && elapsed >= in.hard) CHECK(in.ret, "hard limit reached => stop");
    if (in.soft == 0 && in.hard == 0) CHECK(in.ret, "limits (0,0) ('stop') => stop at once");
    if (in.hard < 0) CHECK(!in.ret, "no limits, no node limit => never stop");
    if (in.hard >= 0) {
        if (in.needMore) CHECK(in.ret == (elapsed >= in.hard), "search needs more time: stop exactly at the hard limit");
        else if (in.esp > 100) CHECK(in.ret == (elapsed >= in.soft), "early stop disabled (fixed move time): stop exactly at the soft limit");
    }
    if (!in.ret && clockVal[0] - searchMem.obj.tLastStats >= 1000) CHECK(statsCalls == 1, "statistics once a second while searching");
    END();
}

// ---- O3d: the soft side: normal search (no 'need more time', early stop enabled): stop iff elapsed >= min(floor(soft*hardFactor), hard)
//      stated without any float->int conversion: stop => elapsed+1 > soft*hardFactor or hard reached;  elapsed >= soft*hardFactor => stop
void h_stop_soft(void) {
    StopIn in = evalStop(false, false);
    ASSUME(!in.needMore && in.esp <= 100 && in.soft >= 0);
    ASSUME(in.hard <= 100000000);                              // limits the engine installs are <= 10^7 (O1); ten times that here
    S64 elapsed = in.now - in.tStart;
    const Search& s = searchMem.obj;
    double scaled = (double)(S64)s.minTimeMillis * s.hardFactor;   // soft limit scaled by the difficulty factor
    if (in.ret) CHECK(elapsed >= in.hard || (double)(elapsed + 1) > scaled, "never stops before min(floor(soft*hardFactor), hard)");
    if ((double)elapsed >= scaled) CHECK(in.ret, "soft*hardFactor reached => stop");
    END();
}

// ---- O3b: with a node limit the time rule still forces a stop, and the node limit forces one too
void h_stop_nodes(void) {
    StopIn in = evalStop(true, verif_param() == 1);
    S64 elapsed = in.now - in.tStart;
    if (in.hard >= 0 && elapsed >= in.hard) CHECK(in.ret, "hard limit reached => stop (node limit set)");
    if (in.soft == 0 && in.hard == 0) CHECK(in.ret, "limits (0,0) => stop at once (node limit set)");
    if (in.nodes >= in.maxNodes) CHECK(in.ret, "node limit reached => stop");
    if (in.ret && in.nodes < in.maxNodes) {
        CHECK(in.hard >= 0, "a stop below the node limit needs a time limit");
        if (in.needMore) CHECK(elapsed >= in.hard, "... and the hard limit reached when the search needs more time");
        else if (in.esp > 100) CHECK(elapsed >= in.soft, "... and the soft limit reached when early stop is disabled");
    }
    END();
}

// ---- O3c: Search::timeLimit installs what it is given (the link between O2's observation point and O3's fields)
void h_install(void) {
    Search& s = searchMem.obj;
    int soft = nondet_int(), hard = nondet_int(), esp = nondet_int(); S64 st = (S64)nondet_u64(), old = (S64)nondet_u64();
    int usage = minTimeUsage;                                  // MinTimeUsage: compile-time constant 85 in this build
    s.tStart = old;
    s.timeLimit(soft, hard, esp, st);                          // real
    CHECK(s.minTimeMillis == soft && s.maxTimeMillis == hard, "limits stored unchanged");
    CHECK(s.earlyStopPercentage == (esp > 0 ? esp : usage), "early-stop percentage: given, else MinTimeUsage");
    CHECK(s.tStart == (st != -1 ? st : old), "start time replaced only when given");
    END();
}

// ---- O3e: the polling interval ("up to one polling interval"): Search::setStrength sets the number of nodes between two evaluations of the stop predicate
//      to 1000, lowered to maxNPS/100 (about 10 ms of search at the throttled speed) but never below 1 when a speed cap is configured
void h_polling(void) {
    Search& s = searchMem.obj;
    int strength = nondet_int(), maxNPS = nondet_int(); U64 seed = nondet_u64();
    s.nodesBetweenTimeCheck = nondet_int();
    s.setStrength(strength, seed, maxNPS);                    // real
    int n = s.nodesBetweenTimeCheck;
    verif_observe(n);
    CHECK(n >= 1 && n <= 1000, "between two stop tests at least 1 and at most 1000 nodes are searched");
    if (maxNPS <= 0) CHECK(n == 1000, "no speed cap: every 1000 nodes");
    else CHECK(n == (maxNPS / 100 < 1 ? 1 : maxNPS / 100 > 1000 ? 1000 : maxNPS / 100), "speed cap: every maxNPS/100 nodes, clamped to [1,1000]");
    CHECK(s.strength >= 0 && s.strength <= 1000 && s.weak == (s.strength < 1000) && s.maxNPS == maxNPS, "strength clamped to [0,1000], speed cap stored");
    END();
}

} // extern "C"
