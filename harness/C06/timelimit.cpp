// C06 - time limits, part 1: EngineControl::computeTimeLimit, the single-legal-move clamp in
// EngineControl::startThread, ponderHit, stopThread, startSearch/startPonder wiring.
// Real code under test: app/texel/enginecontrol.cpp (unity include), util.hpp clamp, parameters.hpp Param<>.
#include "enginecontrol.cpp"
#include "verif.h"

// Typed storage whose constructor/destructor never run (fields are set directly by the harness).
template <class T> union Raw { T obj; Raw() {} ~Raw() {} };

// ---- environment (part of the claim) ----
// parameters.cpp is not part of this unit: the parameter *objects* read by the code under test are defined
// here and their value fields are set directly; they are read through the real accessors
// (Param<..>::operator int, CheckParam::getBoolPar, SpinParam::getIntPar).
DEFINE_PARAM(timeMaxRemainingMoves);
DEFINE_PARAM(bufferTime);
DEFINE_PARAM(minTimeUsage);
DEFINE_PARAM(maxTimeUsage);
DEFINE_PARAM(timePonderHitRate);
namespace UciParams {
    std::shared_ptr<Parameters::CheckParam> ponder;
}
static Raw<Parameters::CheckParam> ponderMem;
static void setPonderOption(bool v) {
    Parameters::CheckParam* p = &ponderMem.obj;
    p->value = v;
    UciParams::ponder._M_ptr = p;
}

// symbolic replacements for the three compile-time time-management constants (used only by the "sym" unit):
// Param<def,min,max,false>::operator int() returns def; the stubs return any value of the declared range.
static int symMoves, symUsage, symHit, callsMoves, callsUsage, callsHit;
extern "C" int model_timeMaxRemainingMoves(const timeMaxRemainingMovesParamType*) { callsMoves++; return symMoves; }
extern "C" int model_maxTimeUsage(const maxTimeUsageParamType*) { callsUsage++; return symUsage; }
extern "C" int model_timePonderHitRate(const timePonderHitRateParamType*) { callsHit++; return symHit; }

static Raw<EngineControl> ecMem;
static EngineControl& rawEC() { return ecMem.obj; }

struct GoInput { int wTime, bTime, wInc, bInc, movesToGo, moveTime, depth, nodes, mate; bool infinite, white, ponderOpt; int buf; };

// mode: 0 = clock, 1 = fixed move time, 2 = neither (depth/nodes/mate/infinite only), 3 = neither and not infinite
static GoInput symbolicGo(int mode) {
    GoInput g;
    g.wTime = nondet_int(); g.bTime = nondet_int(); g.wInc = nondet_int(); g.bInc = nondet_int();
    g.movesToGo = nondet_int(); g.moveTime = nondet_int(); g.depth = nondet_int(); g.nodes = nondet_int(); g.mate = nondet_int();
    g.infinite = nondet_bool(); g.white = nondet_bool(); g.ponderOpt = nondet_bool(); g.buf = nondet_int();
    ASSUME(g.wInc >= 0 && g.wInc <= 100000 && g.bInc >= 0 && g.bInc <= 100000);
    ASSUME(g.movesToGo >= 0 && g.movesToGo <= 100);
    ASSUME(g.depth >= 0 && g.depth <= 1000 && g.nodes >= 0 && g.mate >= 0 && g.mate <= 1000);
    ASSUME(g.buf >= 1 && g.buf <= 10000);
    if (mode == 0) {
        ASSUME(g.wTime >= 1 && g.wTime <= 10000000 && g.bTime >= 1 && g.bTime <= 10000000);
        ASSUME(g.moveTime == 0 && !g.infinite);
    } else if (mode == 1) {
        // fixed move time; clocks may or may not be given as well
        ASSUME(g.wTime >= 0 && g.wTime <= 10000000 && g.bTime >= 0 && g.bTime <= 10000000);
        ASSUME(g.moveTime >= 1 && g.moveTime <= 100000 && !g.infinite);
    } else if (mode == 2) {
        ASSUME(g.moveTime == 0);
        if (!g.infinite) ASSUME(g.wTime == 0 && g.bTime == 0);
        else ASSUME(g.wTime >= 0 && g.wTime <= 10000000 && g.bTime >= 0 && g.bTime <= 10000000);
    } else {
        // mode 3: no time control but a depth / node / mate limit (so the search is not 'infinite')
        ASSUME(g.moveTime == 0 && !g.infinite && g.wTime == 0 && g.bTime == 0);
        ASSUME(g.depth > 0 || g.nodes > 0 || g.mate > 0);
    }
    return g;
}
static void fill(SearchParams& sp, const GoInput& g) {
    sp.wTime = g.wTime; sp.bTime = g.bTime; sp.wInc = g.wInc; sp.bInc = g.bInc; sp.movesToGo = g.movesToGo;
    sp.depth = g.depth; sp.nodes = g.nodes; sp.mate = g.mate; sp.moveTime = g.moveTime; sp.infinite = g.infinite;
}
static void setEnv(EngineControl& ec, const GoInput& g) {
    ec.pos.whiteMove = g.white;
    bufferTime.value = g.buf;
    setPonderOption(g.ponderOpt);
}

// The budget of the property for clock mode ("the mover's remaining clock minus the configured safety buffer"),
// made total for clocks that are not larger than the buffer the way the engine documents it: the buffer never
// takes more than nine tenths (rounded down) of the clock.
static long long clockBudget(long long clock, long long buffer) {
    long long nineTenths = (9 * clock) / 10;
    long long margin = buffer <= nineTenths ? buffer : nineTenths;
    return clock - margin;
}

static void checkClockLimits(const EngineControl& ec, const GoInput& g, bool literal) {
    long long clock = g.white ? g.wTime : g.bTime;
    long long budget = clockBudget(clock, g.buf);
    long long soft = ec.minTimeLimit, hard = ec.maxTimeLimit;
    verif_observe((uint64_t)soft); verif_observe((uint64_t)hard);
    CHECK(budget >= 1 && budget <= clock, "oracle sanity: 1 <= budget <= clock");
    CHECK(soft >= 1, "clock mode: soft limit >= 1");
    CHECK(soft <= hard, "clock mode: soft <= hard");
    CHECK(hard <= budget, "clock mode: hard <= clock - min(BufferTime, 9*clock/10)");
    if (10LL * g.buf <= 9 * clock)       // clock at least 10/9 of the buffer: the literal budget of the property
        CHECK(hard <= clock - g.buf, "clock >= 10/9 buffer: hard <= clock - BufferTime");
    else                                 // small clock (including clock < buffer): at most a tenth of the clock, rounded up
        CHECK(10 * hard <= clock + 9, "small clock: hard <= ceil(clock/10)");
    if (clock >= 2) CHECK(hard < clock, "hard limit strictly below the clock");
    CHECK(ec.earlyStopPercentage == -1, "clock mode: earlyStopPercentage left at -1 (search substitutes minTimeUsage)");
    if (literal)
        CHECK(hard <= (clock - g.buf >= 1 ? clock - g.buf : 1), "LITERAL: hard <= max(1, clock - BufferTime)");
}
static void checkDepthNodes(const EngineControl& ec, const GoInput& g) {
    if (g.infinite) { CHECK(ec.maxDepth == -1 && ec.maxNodes == -1, "infinite: no depth/node limit"); return; }
    int wantDepth = -1;
    if (g.depth > 0) wantDepth = g.depth;
    if (g.mate > 0) { int md = 2 * g.mate - 1; if (wantDepth == -1 || md < wantDepth) wantDepth = md; }
    CHECK(ec.maxDepth == wantDepth, "depth limit = min(depth, 2*mate-1) over the given ones");
    CHECK(ec.maxNodes == (g.nodes > 0 ? g.nodes : -1), "node limit as given");
}

extern "C" {

// ---- O1a/O1b: clock mode
static void clockEntry(bool sym, bool literal) {
    EngineControl& ec = rawEC();
    GoInput g = symbolicGo(0);
    if (sym) {
        symMoves = nondet_int(); symUsage = nondet_int(); symHit = nondet_int();
        ASSUME(symMoves >= 2 && symMoves <= 200 && symUsage >= 100 && symUsage <= 1000 && symHit >= 0 && symHit <= 99);
        callsMoves = callsUsage = callsHit = 0;
    }
    SearchParams sp(0); fill(sp, g); setEnv(ec, g);
    // garbage from the previous search must not matter
    ec.minTimeLimit = nondet_int(); ec.maxTimeLimit = nondet_int(); ec.earlyStopPercentage = nondet_int();
    ec.maxDepth = nondet_int(); ec.maxNodes = nondet_int();
    ec.computeTimeLimit(sp);                                  // real
    checkClockLimits(ec, g, literal);
    checkDepthNodes(ec, g);
    if (sym) CHECK(callsMoves == 1 && callsUsage == 1 && callsHit == (g.ponderOpt ? 1 : 0), "symbolic parameter stubs were the ones read");
}
void h_clock(void) { clockEntry(false, false); END(); }
void h_clock_sym(void) { clockEntry(true, false); END(); }
void h_clock_literal(void) { clockEntry(false, true); END(); }

// ---- O1c: fixed move time, and no time control at all
void h_movetime(void) {
    EngineControl& ec = rawEC();
    int mode = 1 + (int)(nondet_bool() ? 1 : 0);
    GoInput g = symbolicGo(mode);
    SearchParams sp(0); fill(sp, g); setEnv(ec, g);
    ec.minTimeLimit = nondet_int(); ec.maxTimeLimit = nondet_int(); ec.earlyStopPercentage = nondet_int();
    ec.maxDepth = nondet_int(); ec.maxNodes = nondet_int();
    ec.computeTimeLimit(sp);                                  // real
    verif_observe((uint64_t)ec.minTimeLimit); verif_observe((uint64_t)ec.maxTimeLimit); verif_observe((uint64_t)ec.earlyStopPercentage);
    if (mode == 1) {
        CHECK(ec.minTimeLimit == g.moveTime && ec.maxTimeLimit == g.moveTime, "move time: soft = hard = movetime");
        CHECK(ec.earlyStopPercentage == 10000, "move time: early stop disabled (10000 %)");
    } else {
        CHECK(ec.minTimeLimit == -1 && ec.maxTimeLimit == -1 && ec.earlyStopPercentage == -1, "no time control: no time limit (-1,-1,-1)");
    }
    checkDepthNodes(ec, g);
    END();
}


// =====================================================================================================
// O2: what is handed to the search.  startSearch / startPonder / startThread / ponderHit / stopThread are the
// real functions; everything they call outside enginecontrol.cpp's own limit logic is an environment stub:
//   Search::timeLimit            -> records its arguments (the observation point of the property)
//   Search::Search, setStrength, setWhiteContempt, EngineControl::getStrength/getMaxNPS/getWhiteContempt -> no-ops / arbitrary
//   MoveGen::pseudoLegalMoves<wtm>, removeIllegal -> leave an arbitrary number 0..256 of legal moves
//   MoveList::filter             -> keeps an arbitrary subset (any size <= current size)
//   EngineControl::setupPosition -> installs the new position's side to move (before it, pos holds the previous search's side); Position copy-ctor/dtor of its by-value argument -> no-ops
//   EngineMainThread::waitStop / waitOptionsSet / startSearch -> no-ops (startSearch records depth/ponder/infinite)
// =====================================================================================================
struct TLCall { int soft, hard, esp; S64 startTime; };
static TLCall tl[4]; static int nTL;
static int symLegal, symFiltered, startedDepth, startedNodes, nStarted; static bool startedPonder, startedInfinite;

void model_Search_timeLimit(Search* s, int a, int b, int c, S64 st) {
    if (nTL < 4) { tl[nTL].soft = a; tl[nTL].hard = b; tl[nTL].esp = c; tl[nTL].startTime = st; }
    nTL++;
}
void model_Search_ctor(Search* s, const Position& p, const std::vector<U64>& l, int n, Search::SearchTables& st, Communicator& c, TreeLogger& t) { }
void model_setStrength(Search* s, int a, U64 b, int c) { }
void model_setWhiteContempt(Search* s, int a) { }
int  model_getStrength(const EngineControl* e) { return 1000; }
int  model_getMaxNPS(const EngineControl* e) { return 0; }
int  model_getWhiteContempt(EngineControl* e, bool w) { return 0; }
void model_pseudoLegal_w(const Position& p, MoveList& m) { m.size = symLegal; }
void model_pseudoLegal_b(const Position& p, MoveList& m) { m.size = symLegal; }
void model_removeIllegal(Position& p, MoveList& m) { }
void model_filter(MoveList* m, const std::vector<Move>& sm) { if (symFiltered <= m->size) m->size = symFiltered; }
// the new position arrives with setupPosition: before it, ec.pos still holds the PREVIOUS search's position (arbitrary side to move)
static bool gNewWhite;
void model_setupPosition(EngineControl* e, Position p, const std::vector<Move>& m) { e->pos.whiteMove = gNewWhite; }
void model_PositionCopy(Position* dst, const Position& src) { }   // the copy only feeds the setupPosition stub
void model_PositionDtor(Position* p) { }
void model_waitStop(EngineMainThread* t) { }
void model_waitOptionsSet(EngineMainThread* t) { }
ClusterTT& model_getCTT(Communicator* c) { return *reinterpret_cast<ClusterTT*>(c); }
void model_startSearch(EngineMainThread* t, EngineControl* ec, std::shared_ptr<Search>& sc, const Position& pos, std::shared_ptr<MoveList>& moves,
                       bool ownBook, bool analyseMode, int maxDepth, int maxNodes, int maxPV, int minProbeDepth,
                       std::atomic<bool>& ponder, std::atomic<bool>& infinite) {
    nStarted++; startedDepth = maxDepth; startedNodes = maxNodes; startedPonder = ponder.load(); startedInfinite = infinite.load();
}
} // extern "C"

namespace UciParams {
    std::shared_ptr<Parameters::CheckParam> ownBook, analyseMode, analysisAgeHash;
    std::shared_ptr<Parameters::SpinParam> multiPV, minProbeDepth;
}
static Raw<Parameters::CheckParam> chkMem[3];
static Raw<Parameters::SpinParam> spinMem[2];
static Raw<EngineMainThread> emtMem;
alignas(64) static unsigned char commMem[sizeof(ThreadCommunicator)];
alignas(64) static unsigned char etMem[64];
alignas(64) static unsigned char fakeSearch[64];
static Move smStore[4];
static Move ecSmStore[4];
static Move goMoves[1];
// vectors aimed at static storage live in raw objects so that no destructor tries to free that storage
static Raw<SearchParams> spMem;
static Raw<std::vector<Move>> playedMem;

static Parameters::CheckParam* chk(int i, bool v) { Parameters::CheckParam* p = &chkMem[i].obj; p->value = v; return p; }
static Parameters::SpinParam* spin(int i, int v) { Parameters::SpinParam* p = &spinMem[i].obj; p->value = v; return p; }

// engine state between searches: no Search object yet (first 'go' of the session) - releasing a previous one would
// run Search::~Search, which is outside this unit.
static EngineControl& controlEnv(const GoInput& g) {
    EngineControl& ec = rawEC();
    EngineMainThread& emt = emtMem.obj;
    // reference members engineThread / listener sit right before 'sc' (see enginecontrol.hpp); bind them to raw storage
    void** refs = reinterpret_cast<void**>(reinterpret_cast<unsigned char*>(&ec.sc) - 2 * sizeof(void*));
    refs[0] = &emt; refs[1] = etMem;
    *reinterpret_cast<void**>(&emt.comm) = commMem;
    *reinterpret_cast<void**>(&ec.et) = etMem;
    ec.sc._M_ptr = nullptr; ec.sc._M_refcount._M_pi = nullptr;
    pointVec(ec.searchMoves, ecSmStore, 0, 4);             // empty, with capacity (as after an earlier 'go searchmoves')
    setEnv(ec, g);
    gNewWhite = g.white; ec.pos.whiteMove = nondet_bool();   // side to move of the previous search's position: arbitrary
    // analyseMode off: the eval-print branch of startThread (iostream formatting) is outside; 'infinite' is covered
    UciParams::ownBook._M_ptr = chk(0, nondet_bool());
    UciParams::analyseMode._M_ptr = chk(1, false);
    UciParams::analysisAgeHash._M_ptr = chk(2, nondet_bool());
    UciParams::multiPV._M_ptr = spin(0, 1);
    UciParams::minProbeDepth._M_ptr = spin(1, 0);
    symLegal = nondet_int(); symFiltered = nondet_int();
    ASSUME(symLegal >= 0 && symLegal <= 256 && symFiltered >= 0 && symFiltered <= 256);
    nTL = 0; nStarted = 0;
    return ec;
}
static long long propBudget(const GoInput& g) { return clockBudget(g.white ? g.wTime : g.bTime, g.buf); }
static int legalSeen(int nSearchMoves) { return nSearchMoves > 0 && symFiltered <= symLegal ? symFiltered : symLegal; }

// limits that must reach the search for 'go' input g when 'legal' moves are available; mode as in symbolicGo
static void checkHanded(const TLCall& c, const GoInput& g, int mode, int legal, bool infiniteFlag) {
    verif_observe((uint64_t)c.soft); verif_observe((uint64_t)c.hard); verif_observe((uint64_t)c.esp);
    bool single = legal < 2 && !infiniteFlag;
    if (mode == 0) {
        CHECK(c.soft >= 1 && c.soft <= c.hard && c.hard <= propBudget(g), "handed to search (clock): 1 <= soft <= hard <= budget");
        if (single) CHECK(c.hard <= 100, "single legal move: hard <= 100 ms");
    } else if (mode == 1) {
        if (!single) CHECK(c.soft == g.moveTime && c.hard == g.moveTime && c.esp == 10000, "handed to search (movetime): soft = hard = movetime, early stop off");
        else CHECK(c.soft >= 1 && c.soft == c.hard && c.hard <= g.moveTime && c.hard <= 100, "single legal move with movetime: 1 <= soft = hard <= min(movetime,100)");
    } else {
        CHECK(c.soft == -1 && c.hard == -1, "no time control: (-1,-1) handed to the search");
    }
}

extern "C" {

// ---- O2a: 'go' (not ponder): startSearch -> stopThread, computeTimeLimit, startThread -> Search::timeLimit
void h_go(void) {
    int mode = (int)verif_param();
    GoInput g = symbolicGo(mode);
    EngineControl& ec = controlEnv(g);
    SearchParams& sp = spMem.obj; sp.startTime = (S64)(nondet_u64() >> 2); fill(sp, g);
    int nsm = nondet_bool() ? 1 : 0;                       // 'go searchmoves ...' present or not
    pointVec(sp.searchMoves, smStore, nsm, 4);
    std::vector<Move>& played = playedMem.obj; pointVec(played, goMoves, 0, 1);
    ec.startSearch(ec.pos, played, sp);                    // real
    int legal = legalSeen(nsm);
    CHECK(nTL == 1 && nStarted == 1, "exactly one limit installation and one search start");
    bool inf = false;                                      // modes 0, 1, 3 all carry some limit
    CHECK(startedInfinite == inf && !startedPonder, "not infinite, not pondering");
    checkHanded(tl[0], g, mode, legal, inf);
    CHECK(tl[0].startTime == sp.startTime, "elapsed time is counted from the arrival of 'go'");
    if (mode == 3 && legal < 2) CHECK(startedDepth >= 1 && startedDepth <= 2, "single legal move without time control: depth <= 2");
    END();
}

// ---- O2b: 'go ponder' then 'ponderhit'
void h_ponder(void) {
    int mode = (int)verif_param();
    GoInput g = symbolicGo(mode);
    EngineControl& ec = controlEnv(g);
    SearchParams& sp = spMem.obj; sp.startTime = (S64)(nondet_u64() >> 2); fill(sp, g);
    pointVec(sp.searchMoves, smStore, 0, 4);
    std::vector<Move>& played = playedMem.obj; pointVec(played, goMoves, 0, 1);
    ec.startPonder(ec.pos, played, sp);                    // real
    CHECK(nTL == 1 && nStarted == 1, "go ponder: one limit installation, one search start");
    CHECK(tl[0].soft == -1 && tl[0].hard == -1, "while pondering the search has no time limit");
    CHECK(tl[0].startTime == sp.startTime, "elapsed time is counted from the arrival of 'go ponder'");
    CHECK(startedPonder && !startedInfinite, "ponder flag set");
    ec.ponderHit();                                        // real
    CHECK(nTL == 2, "ponderhit installs limits once");
    CHECK(!ec.ponder.load(), "ponder flag cleared by ponderhit");
    CHECK(tl[1].startTime == -1, "ponderhit keeps the original start time");
    int legal = symLegal;
    if (mode == 0) {
        CHECK(tl[1].soft >= 1 && tl[1].soft <= tl[1].hard && tl[1].hard <= propBudget(g), "ponderhit (clock): 1 <= soft <= hard <= budget");
        if (legal < 2) CHECK(tl[1].hard == 1, "ponderhit with a single legal move: limits (1,1)");
    } else if (mode == 1) {
        if (legal >= 2) CHECK(tl[1].soft == g.moveTime && tl[1].hard == g.moveTime && tl[1].esp == 10000, "ponderhit (movetime): soft = hard = movetime");
        else CHECK(tl[1].soft == 1 && tl[1].hard == 1, "ponderhit with a single legal move: limits (1,1)");
    } else {
        CHECK(tl[1].soft == -1 && tl[1].hard == -1, "ponderhit without time control: no limit");
    }
    END();
}

// ---- O2c: 'stop' (and the implicit stop before every new search): limits (0,0) reach the running search
void h_stop(void) {
    GoInput g = symbolicGo(0);
    EngineControl& ec = controlEnv(g);
    bool running = nondet_bool();
    if (running) ec.sc._M_ptr = reinterpret_cast<Search*>(fakeSearch);   // never dereferenced: Search::timeLimit is the recording stub
    ec.minTimeLimit = nondet_int(); ec.maxTimeLimit = nondet_int(); ec.earlyStopPercentage = nondet_int();
    ec.ponder.store(nondet_bool()); ec.infinite.store(nondet_bool());
    ec.stopSearch();                                       // real (-> stopThread)
    if (running) {
        CHECK(nTL == 1 && tl[0].soft == 0 && tl[0].hard == 0, "stop: limits (0,0) installed");
        CHECK(tl[0].startTime == -1, "stop: start time untouched");
    } else CHECK(nTL == 0, "no search object: nothing to stop");
    CHECK(!ec.ponder.load() && !ec.infinite.load(), "stop clears ponder and infinite (the reply is no longer held back)");
    END();
}

// ---- O2d: ponderHit alone, from any state computeTimeLimit can leave (O1 post-condition as the assumption)
void h_ponderhit(void) {
    GoInput g = symbolicGo(0);
    EngineControl& ec = controlEnv(g);
    ec.sc._M_ptr = reinterpret_cast<Search*>(fakeSearch);
    int soft = nondet_int(), hard = nondet_int(), esp = nondet_int(); long long budget = propBudget(g);
    bool timed = nondet_bool();
    if (timed) ASSUME(soft >= 1 && soft <= hard && hard <= budget); else ASSUME(soft == -1 && hard == -1);
    ec.minTimeLimit = soft; ec.maxTimeLimit = hard; ec.earlyStopPercentage = esp;
    ec.maxDepth = nondet_int(); ec.maxNodes = nondet_int();
    ec.onePossibleMove = nondet_bool(); ec.ponder.store(true); ec.infinite.store(false);
    ec.ponderHit();                                        // real
    CHECK(nTL == 1 && tl[0].esp == esp && tl[0].startTime == -1, "one installation, early-stop percentage and start time unchanged");
    if (timed) {
        CHECK(tl[0].soft >= 1 && tl[0].soft <= tl[0].hard && tl[0].hard <= budget, "1 <= soft <= hard <= budget after ponderhit");
        CHECK(tl[0].soft <= soft && tl[0].hard <= hard, "ponderhit never enlarges a limit");
        if (ec.onePossibleMove) CHECK(tl[0].hard == 1, "single legal move: (1,1)");
        else CHECK(tl[0].soft == soft && tl[0].hard == hard, "otherwise the computed limits unchanged");
    } else CHECK(tl[0].soft == -1 && tl[0].hard == -1, "no limits stay no limits");
    CHECK(!ec.ponder.load(), "ponder flag cleared");
    END();
}

} // extern "C"
