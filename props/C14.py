from vlib.pipeline import Unit, Ob
from props.common import TRUSTED_BASE

LEVEL_TEXT = ('Bounded symbolic model checking (CBMC) of the real reset kernels behind Clear Hash, lowered through clang IR: from EVERY prior state (arbitrary table contents, '
              'generation counter, on-demand tablebase installed or not, arbitrary history/killer counters) the state a search reads after TranspositionTable::clear / History::init / '
              'KillerTable::clear is the state of a freshly started engine - as state equality (which covers any number of later operations by determinism) and, independently, as a '
              'differential run of the real nextGeneration/insert/probe on a fresh and on a cleared table (bounded number of stores).  OUTSIDE the claim: that the search (negaScout) '
              'reads no other persistent state, the Clear Hash listener\'s wiring inside EngineControl (that it calls these three resets and forwards the clear-history flag to helper threads), '
              'the evaluation caches (pure caches: C07-O5), and equality of complete UCI output, which can only be observed by running searches.')
ASSUMPTIONS = ['a freshly started engine\'s table is modelled as the tail of TranspositionTable::reSize ("generation = 0; clear();") over newly allocated memory with arbitrary bytes; the allocation itself (large pages, shared_ptr) is not lowered',
               '16-slot tables (4 buckets); the index function is abstracted to its contract proved under C08-O1 (4-aligned bucket inside the table, function of the key only); the single-threaded zeroing branch of clear() (tables <= 2^20 entries)',
               'generation counter in 0..15 (the range nextGeneration keeps it in); contempt in [-2000,2000]; plies in [0,200], scores within [-(32000-ply), 32000-ply], depth in [-8,511]',
               'single search thread (as the property states)']

def build(tier):
    import copy
    from props import C12
    units12, obs12 = C12.build(tier)
    ui = [u for u in units12 if u.name == 'tbinstall'][0]
    al = dict(ui.aliases); al['_ZNK18TranspositionTable8getIndexEm'] = 'model_getIndex'
    kw = {'lemmas': list(ui.lemmas)} if getattr(ui, 'lemmas', None) else {}
    uc = Unit('clearhash', 'C14/clearhash.cpp', ['h_clear_diff', 'h_clear_state'], aliases=al, allow_extern=ui.allow_extern, **kw)
    uh = Unit('histkill', 'C14/histkill.cpp', ['h_hist_init', 'h_killer_clear'], object_bits=16)
    FT = ['TranspositionTable::clear (transpositionTable.cpp:85-108)', 'TranspositionTable::setUsedSize', 'TranspositionTable::nextGeneration', 'TranspositionTable::setWhiteContempt',
          'TranspositionTable::insert', 'TranspositionTable::probe', 'TTEntry::betterThan/load/store/get*/set*']
    ST = ['TranspositionTable::getIndex -> 4-bucket model with the contract of C08-O1', 'TBGenerator constructor/generate/probeDTM -> recording stubs (not reached)', 'fresh table = "generation = 0; clear()" over arbitrary memory']
    obs = []
    for o in obs12:
        if o.oid in ('L1-firstbit', 'L2-bitcount'):
            obs.append(copy.copy(o))
    # (stores, all keys in the probed bucket?)
    cases = [(1, False), (2, True)] if tier == 'quick' else [(1, False), (2, True), (2, False), (3, True), (4, True)]
    for n, one in cases:
        obs.append(Ob('O1-tt-differential@%dstores%s' % (n, '-1bucket' if one else ''), uc, 'h_clear_diff',
                      'fresh table vs. table with an arbitrary past after clear(): the same go (ageing or not, same contempt), the same %d store(s) with arbitrary keys and arguments, then a probe with an arbitrary key: '
                      'hit/miss and the returned record (key, move, score, depth, type, eval, busy) are identical' % n,
                      unwind=20, unwind_fn={'__ir_memset_n': 260}, param=n + (16 if one else 0), timeout=1500 if n <= 2 else 5400, core=(n <= 2 and (one or n == 1)), functions=FT, stubs=ST,
                      bounds='%d store(s) then one probe%s; 16-slot tables; prior generation 0..15; arbitrary prior contents and tablebase bookkeeping' % (n, ' (all keys in the probed bucket - buckets are independent by C08-O5)' if one else ' (keys in any buckets)')))
    obs.append(Ob('O2-tt-state', uc, 'h_clear_state', 'after clear() every field the hashing code reads (slot contents, usedSize and its derived index parameters, tablebase pointer, unused counter, generation counter) '
                  'equals the freshly started engine\'s: all later behaviour of the table coincides, for any number of operations', unwind=20, unwind_fn={'__ir_memset_n': 260}, functions=FT[:2], stubs=ST[1:],
                  bounds='arbitrary prior state; 16-slot tables'))
    obs.append(Ob('O3-history-init', uh, 'h_hist_init', core=False, timeout=900, desc= 'History::init() from arbitrary counters leaves every one of the 13x64 entries zero = the freshly constructed table (the constructor is a call of init())', unwind=70,
                  functions=['History::init (history.cpp)'], bounds='every one of the 13x64 entries (symbolic choice) with arbitrary 16-bit left-over counters, the others zero'))
    obs.append(Ob('O4-killer-clear', uh, 'h_killer_clear', 'KillerTable::clear() from arbitrary contents gives the freshly constructed table; killer scores read afterwards coincide for every ply and move', unwind=205,
                  functions=['KillerTable::KillerTable', 'KillerTable::clear', 'KillerTable::getKillerScore (killerTable.hpp)'], bounds='all 200 entries arbitrary; every ply 0..199; every move'))
    # the tablebase side of clear(): the C12 obligation re-run under this property ("resident on-demand tablebase")
    for o in obs12:
        if o.oid == 'O5c-clear':
            o2 = copy.copy(o); o2.oid = 'O5-clear-tablebase'; obs.append(o2)
    return [uc, uh, ui] + [u for u in units12 if u.name == 'tbindex'], obs
