# Reasons for properties that are not (or not yet) claimed.  A property with a props/Cxx.py module is claimed
# and its entry here is ignored.
PENDING = 'check not built yet in this round (planned: DESIGN.md section 4)'
REASONS = {
 'C03': 'The output is produced by recursive negaScout over the game tree with TT, exceptions, std::vector<MoveInfo> and threads; no bounded symbolic execution of it is within reach of CBMC, and the encodable guards decide only a sliver of the stated property.',
 'C04': 'Soundness of a mate score is a statement about the whole search tree (pruning, hash re-use at other plies); only the score encoding is encodable and that is claimed under C08/C13, not as C04.',
 'C05': 'Session behaviour = iostream parsing + std::string/vector tokenising + three cooperating threads; cannot be lowered for CBMC.',
 'C09': 'Data-race freedom of whole engine sessions needs happens-before over every access of every thread; CBMC cannot take libstdc++ thread/deque/shared_ptr code, and checking two or three lowered leaf functions would not decide the property.',
 'C10': 'Start/stop/ack protocol state lives in std::deque<std::shared_ptr<Command>>, virtual dispatch and std::thread lifecycles; not encodable for a bounded symbolic run.',
 'C16': 'Proof-kernel/extended-kernel search and path search are heap-based graph searches over std::vector/map/set with unbounded depth; no bounded encoding decides "never declares a reachable position illegal". (Its leaf CspSolver is claimed as C20.)',
 'C19': 'The book graph is a pointer-linked DAG in std::map/shared_ptr/weak_ptr with recursive propagation and stream (de)serialisation; not encodable.',
}
