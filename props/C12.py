from vlib.pipeline import Unit, Ob
from props.common import TRUSTED_BASE

LEVEL_TEXT = ('Bounded symbolic model checking (CBMC) of the real on-demand tablebase code lowered through clang IR. Decided for every input inside the stated '
              'ranges (nothing sampled): index canonisation (TBIndex/TBPosition) for each of the 45 pawnless material classes with <= 4 men, all squares/indices symbolic; '
              'TBPosition::setPosition on a symbolic <= 4-man (thorough: <= 5-man) Position; the PositionValue byte encoding and the probeDTM score conversion for tables in own memory '
              'and inside the transposition table; the installation/abort state machine of TranspositionTable::updateTB with the generator stubbed; the tablebase region arithmetic and the '
              'getByte/putByte lane arithmetic for all table sizes from 7 MiB to 2^35 entries. OUTSIDE the claim: that the generated values are the game-theoretically exact distance to mate '
              '(TBGenerator::generate is a retrograde fixpoint over up to 2.6 M positions per table: neither the loop nor a per-index Bellman check over a 2.6 M-entry symbolic array is within reach '
              'of a SAT back end); forward/backward move consistency (O3) is attempted as an extended obligation on small classes without sliding pieces only.')
ASSUMPTIONS = ['positions have exactly one king per side (FEN reader / makeMove invariant); squares of different men are different',
               'distances to mate inside the representable range of PositionValue: mate in n <= 63, mated in n <= 62 (mated in 63 collides with DRAW: exhibited by O4-posvalue; the longest pawnless 4-man mate is 40 moves, so the generator never gets there)',
               'ply in [0,400] for the score conversion',
               'Search::timeLimit(int,int) is the only writer of maxTimeMillis: values in [-1, 2^31-1]; updateTB\'s function-static requiredTime is at its initial value 3000 (single-call obligations)',
               'transposition table sizes: multiple of 4 entries, up to 2^35 entries; region obligations: >= 7 MiB as updateTB requires',
               'single-threaded view of updateTB (it runs in the search thread before helper threads are started); a concurrent UCI stop is modelled as generate() storing 0 into maxTimeMillis and returning false']

N_CLASSES = 45
FIRSTBIT = {'_ZN7BitUtil8firstBitEm': 'model_firstBit'}
BITCOUNT = {'_ZN7BitUtil8bitCountEm': 'model_bitCount'}
GENSTUBS = {'_ZN11TBGeneratorI9TTStorageEC2ERS0_RK10PieceCount': 'model_genCtor',
            '_ZN11TBGeneratorI9TTStorageE8generateER13RelaxedSharedIlEb': 'model_generate',
            '_ZNK11TBGeneratorI9TTStorageE8probeDTMERK8PositioniRi': 'model_genProbe'}
PROBESTUBS = {'_ZN10TBPosition11setPositionERK8Position': 'model_setPosition', '_ZNK13VectorStorageixEj': 'model_vecRead',
              '_ZN13VectorStorage6resizeEj': 'model_vecResize', '_ZN18TranspositionTable7getByteEm': 'model_getByte'}
REGIONSTUBS = {'_ZN18TranspositionTable7getByteEm': 'model_getByte', '_ZN18TranspositionTable7putByteEmh': 'model_putByte'}

CLASS_TXT = 'material class %d of 45 (0 = KK, 1..8 = one extra piece wq wr wb wn bq br bb bn, 9..44 = two extra pieces), concrete; '
SUB_FIRSTBIT = 'BitUtil::firstBit -> model_firstBit (count trailing zeros; proved equal on non-empty masks by L1; the model asserts the mask is non-empty)'
SUB_BITCOUNT = 'BitUtil::bitCount -> model_bitCount (population count; proved equal for all 2^64 masks by L2)'

# newer pipeline versions void dependants of a substitution whose lemma is not discharged in the same run (Unit(lemmas=[...]))
LEMMAS_OK = 'lemmas' in Unit.__init__.__code__.co_varnames
def lem(*ids): return {'lemmas': list(ids)} if LEMMAS_OK else {}

def build(tier):
    thorough = tier == 'thorough'
    u = Unit('tbindex', 'C12/tbindex.cpp', ['h_index', 'h_canon', 'h_lemma_firstbit', 'h_lemma_bitcount'])
    up = Unit('tbpos', 'C12/tbpos.cpp', ['h_setpos', 'h_posvalue'], aliases=FIRSTBIT, defines={'MAXEXTRA': 2}, **lem('L1-firstbit'))
    up5 = Unit('tbpos5', 'C12/tbpos.cpp', ['h_setpos'], aliases=FIRSTBIT, defines={'MAXEXTRA': 3}, **lem('L1-firstbit'))
    upr = Unit('tbprobe', 'C12/tbprobe.cpp', ['h_probe_vec', 'h_probe_tt'], aliases=PROBESTUBS)
    ui = Unit('tbinstall', 'C12/tbinstall.cpp', ['h_updatetb', 'h_lanes', 'h_clear'], aliases=dict(GENSTUBS, **dict(FIRSTBIT, **BITCOUNT)),
              allow_extern=[r'_ZN10ThreadPool.*', r'_ZNSt.*', r'_ZSt.*', r'_ZN4Numa.*', r'_ZNK4Numa.*', r'_ZT[VI].*', r'_ZNKSt.*', r'pthread_\w+', r'__cxa_\w+', r'_Z.*ThreadPool.*'],   # thread-pool branch of clear(): only for tables > 2^20 entries (tableSize is 8 in h_clear)
              **lem('L1-firstbit', 'L2-bitcount'))
    ur = Unit('tbregion', 'C12/tbinstall.cpp', ['h_region'], aliases=REGIONSTUBS)
    units = [u, up, up5, upr, ui, ur]
    obs = []
    # ---- lemmas for the proved substitutions
    obs.append(Ob('L1-firstbit', u, 'h_lemma_firstbit', 'BitUtil::firstBit/extractBit == index of the lowest set bit == ctz, for every non-empty 64-bit mask',
                  unwind=70, functions=['BitUtil::firstBit', 'BitUtil::extractBit (bitBoard.hpp)', 'BitUtil::trailingZ (table dumped from the static initialiser)'], bounds='all 2^64-1 non-empty masks'))
    obs.append(Ob('L2-bitcount', u, 'h_lemma_bitcount', 'BitUtil::bitCount == number of set bits == popcount, for every 64-bit mask', unwind=70, backend='cadical', timeout=900,
                  functions=['BitUtil::bitCount (bitBoard.hpp)'], bounds='all 2^64 masks'))
    # ---- O1 index canonisation, every class
    F1 = ['TBIndex::TBIndex', 'TBIndex::setSquare', 'TBIndex::getSquare', 'TBIndex::canonize', 'TBIndex::sortPieces', 'TBIndex::mirrorX/mirrorY/mirrorD/swapSide/pieceShift (tbgen.hpp)',
          'TBPosition::TBPosition', 'TBPosition::indexValid', 'TBPosition::setIndex/getIndex/nPositions', 'TBIndex::symType/kingMap/kingMapInverse (tables produced by the real TBIndex::staticInitialize, dumped)']
    for c in range(N_CLASSES):
        obs.append(Ob('O1-index@c%d' % c, u, 'h_index',
                      'setSquare(white king) lands in the a1-d1-d4 triangle and moves every other piece by one and the same board symmetry (8 symmetries written out on coordinates); '
                      'getSquare(setSquare)=id on the other pieces, the black king drags captured pieces; indexValid => kings apart, no shared squares, index is its own representative; '
                      'a legal arrangement is rejected only as a duplicate; index < nPositions', unwind=40, param=c, functions=F1,
                      bounds=CLASS_TXT % c + 'every index < nPositions(), every square 0..63, every piece number'))
        obs.append(Ob('O1-canon@c%d' % c, u, 'h_canon',
                      'two placements that are images of each other under any of the 8 board symmetries and under swapping two identical pieces get the same index; the index decodes to such an image with the same '
                      'side to move and the white king in the triangle; canonize is idempotent; indexValid(index) <=> the placement is a legal arrangement', unwind=40, param=c, timeout=900, functions=F1,
                      bounds=CLASS_TXT % c + 'all squares of all pieces 0..63 (overlaps and captured pieces included), both sides to move, all 8 symmetries, swap or not'))
    # ---- O2 setPosition
    F2 = ['TBPosition::setPosition (tbgen.cpp:222-255)', 'TBPosition::indexValid', 'TBIndex::setSquare/canonize/sortPieces/swapSide', 'Position::pieceTypeBB/bKingSq/wKingSq/getCastleMask/isWhiteMove',
          'BitBoard::extractSquare/firstSquare', 'BitUtil::extractBit']
    for c in range(N_CLASSES):
        obs.append(Ob('O2-setpos@c%d' % c, up, 'h_setpos',
                      'setPosition succeeds exactly when the table covers the position (castle mask 0, no pawn, every piece kind at most as often as in the class: missing pieces count as captured); '
                      'the index then decodes (getSquare + the constructor\'s piece list) to the position mirrored by one of the 8 board symmetries, same side to move, king in the triangle, and is a valid index; '
                      'other material, pawns, or castling rights => false (not found)', unwind=70, param=c, backend='cadical', timeout=900, functions=F2,
                      bounds=CLASS_TXT % c + 'Position built directly (bitboards, squares[], side, castle mask 0..15) from both kings plus up to 2 further men of any kind incl. pawns, all squares symbolic and distinct',
                      stubs=[SUB_FIRSTBIT]))
    if thorough:
        for c in range(N_CLASSES):
            obs.append(Ob('O2-setpos5@c%d' % c, up5, 'h_setpos', 'as O2-setpos with positions of up to 5 men (more men than any table this engine builds)', unwind=70, param=c, backend='cadical', timeout=3000,
                          tiers=('thorough',), functions=F2, bounds=CLASS_TXT % c + 'both kings plus up to 3 further men of any kind incl. pawns', stubs=[SUB_FIRSTBIT]))
    # ---- O4 value encoding and probe conversion
    obs.append(Ob('O4-posvalue', up, 'h_posvalue',
                  'PositionValue: set/is/get round trips for mate in n, mated in n, draw, invalid, unknown, remaining n (+decRemaining), default; byte <-> value round trip; every one of the 256 bytes falls in exactly one class and '
                  'only mate(n>=1)/mated/draw bytes are results; end of the representable range (mated in 63 == DRAW) exhibited', unwind=40,
                  functions=['PositionValue::* (tbgen.hpp:297-399)'], bounds='mate in n: n 0..63; mated in n: n 0..62; remaining n: 1..125; all 256 byte values'))
    F4 = ['TBGenerator<VectorStorage>::probeDTM', 'TBGenerator<TTStorage>::probeDTM (tbgen.cpp:615-635)', 'TBGenerator::TBGenerator', 'TBPosition::TBPosition', 'PositionValue::getMateInN/getMatedInN/isDraw',
          'TTStorage::resize/operator[] (transpositionTable.hpp:239-248)']
    S4 = ['TBPosition::setPosition -> any (found, index < nPositions): the contract O2 proves', 'VectorStorage::operator[] / TranspositionTable::getByte -> one symbolic byte for whatever entry is read, entry recorded (real getByte lanes: O6)',
          'VectorStorage::resize -> records the size (allocation)']
    for c in (range(N_CLASSES) if thorough else (0, 1, 9)):
        for e, nm in (('h_probe_vec', 'vec'), ('h_probe_tt', 'tt')):
            obs.append(Ob('O4-probe-%s@c%d' % (nm, c), upr, e,
                          'probeDTM: found <=> position covered and the table byte is a final result (never UNKNOWN/REMAINING/INVALID/UNINITIALIZED/king-capture); mate in n -> MATE0-ply-2n, mated in n -> -(MATE0-ply-2n-1), '
                          'draw -> 0, equal to the score the search gives a mate delivered that many plies later; score untouched otherwise; exactly the entry at the position\'s index is read (for TTStorage: byte byteSize-nPositions+index)',
                          unwind=70, param=c, functions=F4, stubs=S4,
                          bounds=CLASS_TXT % c + 'all 256 table bytes, ply 0..400, any index < nPositions, table size 7 MiB..2^35 entries (TT flavour); the class enters only through nPositions() (quick: one class per men count, thorough: all 45)'))
    # ---- O5 installation / abort state machine
    F5 = ['TranspositionTable::updateTB (transpositionTable.cpp:311-359)', 'TranspositionTable::probeDTM', 'TranspositionTable::setUsedSize', 'std::unique_ptr<TBGenerator<TTStorage>>::reset/operator=', 'make_unique (malloc/free)']
    S5 = ['TBGenerator<TTStorage> constructor -> records the object and its PieceCount', 'TBGenerator<TTStorage>::generate -> returns completed/aborted (by case split), may store 0 into maxTimeMillis (stop request)',
          'TBGenerator<TTStorage>::probeDTM -> symbolic answer; asserts that only a completely generated table is consulted', SUB_BITCOUNT, SUB_FIRSTBIT]
    for k, txt in ((0, 'generation completes, no table installed before'), (2, 'generation completes, complete table installed before'),
                   (1, 'generation ABORTED (time limit / stop), no table installed before'), (3, 'generation ABORTED (time limit / stop), complete table installed before')):
        obs.append(Ob('O5-updatetb@%d' % k, ui, 'h_updatetb',
                      'updateTB preserves the installation invariant [tbGen != null => last generate() on that object completed and usedSize == tableSize - 5MiB/16 and table >= 7 MiB; tbGen == null => usedSize == tableSize; '
                      'index parameters match usedSize; notUsedCnt in 0..4]; returns true only with a complete table installed; generates only for pawnless <= 4-man roots, with room and time, for exactly the root material; '
                      'release after 5 unsuitable roots; a following probeDTM consults only a complete table.  Case: ' + txt +
                      ('  (this case failed before the repository fix recorded in known_findings.txt: the aborted generator stayed installed)' if k & 1 else ''),
                      unwind=70, param=k, timeout=900, functions=F5, stubs=S5, site='transpositionTable.cpp:TranspositionTable::updateTB',
                      bounds='tableSize any multiple of 4 in [4, 2^35]; notUsedCnt 0..4; root position: both kings + up to 3 further men of any kind incl. pawns; maxTimeMillis in [-1, 2^31-1]; requiredTime = 3000'))
    obs.append(Ob('O5c-clear', ui, 'h_clear', 'TranspositionTable::clear() (Clear Hash / ucinewgame): releases the on-demand tablebase, gives the whole table back to hashing, resets the unused counter, zeroes every slot; afterwards no tablebase is consulted',
                  unwind=70, unwind_fn={'__ir_memset_n': 130}, timeout=900, functions=['TranspositionTable::clear (transpositionTable.cpp:85-108)', 'TranspositionTable::setUsedSize', 'TranspositionTable::probeDTM'], stubs=S5,
                  bounds='arbitrary prior bookkeeping state (table installed or not, any usedSize/notUsedCnt); 8-slot table with arbitrary contents (single-threaded zeroing branch; the thread-pool branch for tables > 2^20 entries is outside)'))
    # ---- O6 region arithmetic
    obs.append(Ob('O6-lanes', ui, 'h_lanes', 'getByte/putByte on a real 8-slot table: byte idx lives in lane idx%8 of word (idx%16)/8 of slot idx/16; putByte then getByte returns the value; every other byte of the table, '
                  'hence the other 15 bytes of the slot, untouched; at most one 64-bit word written', unwind=70,
                  functions=['TranspositionTable::getByte', 'TranspositionTable::putByte', 'TranspositionTable::byteSize (transpositionTable.hpp:478-509)'],
                  bounds='arbitrary contents of 8 slots (16 symbolic words), every byte index 0..127, every value', stubs=['std::atomic relaxed load/store = plain word access']))
    for c in range(N_CLASSES):
        obs.append(Ob('O6-region@c%d' % c, ur, 'h_region',
                      'with usedSize = tableSize - 5MiB/16 (what O5 proves updateTB installs) and the real generator constructor: nPositions = 20*64^(men-1) <= 5 MiB; every byte index TTStorage::store/operator[] passes to putByte/getByte '
                      'is byteSize - nPositions + index, inside [byteSize - nPositions, byteSize); its slot is >= usedSize; and every bucket the real getIndex yields ends below usedSize, so no hash bucket overlaps a tablebase byte',
                      unwind=70, param=c, functions=['TBGenerator<TTStorage>::TBGenerator', 'TBPosition::TBPosition', 'TTStorage::resize/store/operator[]', 'TranspositionTable::setUsedSize', 'TranspositionTable::getIndex', 'TranspositionTable::byteSize'],
                      stubs=['TranspositionTable::getByte/putByte -> record the byte index (their real lane arithmetic is O6-lanes)'],
                      bounds=CLASS_TXT % c + 'tableSize any multiple of 4 with byteSize in [7 MiB, 2^39] (2^35 entries); every index < nPositions; every 64-bit hash key'))
    # (O3, forward/backward consistency of TBPosition::getMoves/getUnMoves on a symbolic index, was tried for the slider-free classes: 20 min of symbolic execution and
    #  out of memory at 16 GB in propositional reduction, also in the thorough tier: not registered; move/un-move generation stays outside the claim)
    return units, obs
