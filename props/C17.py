from vlib.pipeline import Unit, Ob
from props.common import TRUSTED_BASE

LEVEL_TEXT = ('Bounded symbolic model checking (CBMC) of the real text kernels together with the real libstdc++ std::string code they run on '
              '(the harness TUs are compiled with -D_GLIBCXX_ASSERTIONS, which switches the "extern template class basic_string<char>" declaration off, so '
              'operator[], substr, operator+=, _M_append, _M_mutate, _M_construct ... are instantiated from the headers and lowered like repository code, and turns the '
              'documented preconditions of operator[] / std::array::operator[] into checked assertions). Arguments are harness-built std::string objects whose every byte '
              '(also the bytes after the terminator) is a solver variable. Decided: UCI move text and square text (parse of every byte string up to the bound is total, '
              'exact and memory safe; moveToUCIString/uciStringToMove and squareToString/getSquare round trips for all moves/squares), the character-level scanner of '
              'readFEN on every short byte string and on every tail after three fixed piece-placement fields (no out-of-range board index, no std::string precondition '
              'violation, only ChessParseError as rejection, accepted result equals an independent reading of the FEN fields), util trim() and the UCI tokenizer on '
              'every line up to the bound. and the capture test behind the x of algebraic notation (isCapture) on symbolic positions of up to 4 (thorough 5) men. Outside the claim: the rest of SAN (moveToString/stringToMove: legal-move-list driven std::string building, std::vector<Move> of matches, move generation), '
              'toFEN (stringstream number formatting), the numeric conversion std::stoi/strtol, fixupEPSquare/inCheck (move generation, C01), the PGN scanner/writer of '
              'gametree.cpp (iostream based), and the command dispatch of handleCommand behind the tokenizer.')
ASSUMPTIONS = ['string lengths bounded per obligation (see bounds); all strings produced inside the lowered code then fit the 15-byte SSO buffer, so the heap path of '
               'basic_string::_M_create is asserted unreachable instead of being explored (model_no_heap fails the query if it is reached)',
               'TextIO::getSquare is only claimed for arguments of length >= 1 (for length 1 it reads the terminator s[1], which is defined); for an empty string it would read one byte '
               'past the terminator - no caller in lib/ or app/ can pass one: uciStringToMove passes substr(0,2)/substr(2,2) of a 4..5 byte string (O1c), readFEN guards the en-passant '
               'token with i >= length-1 (O2b decides that guard for every tail)',
               'readFEN: Position::setPiece replaced by a board-write model that asserts square in [0,63] and piece in [1,12] (hash/material/bitboard bookkeeping of the real setPiece is C02 territory; '
               'with the real setPiece the queries did not finish within 20 min / 11 GB); MoveGen::inCheck answers arbitrarily; fixupEPSquare is a no-op; str2Num(string,int&) answers arbitrarily',
               'isspace(): "C" locale; bytes >= 0x80 reach it as negative ints (plain char is signed on x86-64) - outside ISO C\'s domain for isspace, inside glibc\'s table [-128,255]; modelled as glibc does (not a space) with the glibc domain asserted',
               'tokenizer: the token vector has capacity for the largest possible number of tokens (libstdc++ vector growth _M_realloc_insert is not exercised; reaching it fails the query)',
               'x86-64 libstdc++ (gcc 12) cxx11 string ABI']

STUB_STR = ['std::__glibcxx_assert_fail -> harness assertion failure (libstdc++ precondition violated)', 'operator new -> model_no_heap (asserts unreachable: all strings fit SSO)',
            'std::allocator<char> constructors/destructors -> no-op (empty functions living in libstdc++.so)']
GLIBCXX = {'_ZSt21__glibcxx_assert_failPKciS0_S0_': 'model_glibcxx_assert_fail', '_Znwm': 'model_no_heap',
           # std::allocator<char> is an 'extern template': its (empty) constructors/destructors live in libstdc++.so
           '_ZNSaIcEC1Ev': 'model_alloc_noop', '_ZNSaIcED1Ev': 'model_alloc_noop', '_ZNSaIcED2Ev': 'model_alloc_noop',
           '_ZNSaIcEC1ERKS_': 'model_alloc_noop2', '_ZNSaIcEC2ERKS_': 'model_alloc_noop2'}
ALLOW = [r'__cxa_call_unexpected']   # only called from landing pads (paths end there)
STRING = 'std::string'
SYMLOOPS = ','.join('_ZN6SymStr12makePrefixedB5cxx11EPKcmmm.%d:42' % i for i in range(8))   # harness string builder: 16-byte buffer / 40-byte oracle copy (loop ids depend on the opt pipeline; unknown ids are ignored by CBMC)
RF = '_ZN6TextIO7readFENERKNSt7__cxx1112basic_stringIcSt11char_traitsIcESaIcEEE'
TK = '_ZN11UCIProtocol8tokenizeERKNSt7__cxx1112basic_stringIcSt11char_traitsIcESaIcEEERSt6vectorIS5_SaIS5_EE.0'
TR = '_Z4trimRKNSt7__cxx1112basic_stringIcSt11char_traitsIcESaIcEEE'
PREFIX = {1: '4k3/8/8/3pP3/8/8/8/4K3 ', 2: 'r3k2r/8/8/8/3Pp3/8/8/R3K2R ', 3: '4k3/8/8/8/8/8/8/4K3', 4: '4k3/8/3N4/3pP3/8/8/8/4K3 ', 5: '4k3/8/8/8/3Pp3/3n4/8/4K3 '}   # must match harness/C17/fen.cpp

def build(tier):
    quick = tier == 'quick'
    # ------------------------------------------------------------------ O1: UCI move text / square text
    maxlen = 7 if quick else 15
    u = Unit('uci', 'C17/uci.cpp', ['h_square_rt', 'h_getsquare_any', 'h_uci_parse', 'h_uci_rt'],
             defines={'SYM_MAXLEN': maxlen}, clang_flags=['-D_GLIBCXX_ASSERTIONS'], aliases=dict(GLIBCXX), allow_extern=ALLOW)
    strfn = ['libstdc++ basic_string: operator[], length, substr, basic_string(const&,pos,n), operator+=(char/const char*/string), push_back, append, _M_append, _M_mutate, _M_create, _M_construct, _M_dispose (real, lowered)']
    obs = [
        Ob('O1a-square-rt', u, 'h_square_rt', 'squareToString(sq) is exactly <file letter><rank digit>, a well-formed 2-byte string, and getSquare(squareToString(sq)) == sq',
           unwind=20, functions=['TextIO::squareToString', 'TextIO::getSquare (textio.hpp:114-132)', 'Square::getX/getY'] + strfn, bounds='all 64 squares', stubs=STUB_STR),
        Ob('O1b-getsquare-any', u, 'h_getsquare_any', 'getSquare on arbitrary bytes: the right square iff byte0 in a..h and byte1 in 1..8, else Square(-1); no read outside the string object, no std::string precondition violated',
           unwind=42, functions=['TextIO::getSquare'] + strfn, bounds='every byte string of length 1..%d (bytes after the terminator arbitrary too; 16-byte SSO buffer is the last member of its own 32-byte object)' % maxlen, stubs=STUB_STR),
        Ob('O1c-uci-parse', u, 'h_uci_parse', 'uciStringToMove is total and exact on arbitrary bytes: result = Move(from,to,promotion) iff the string is <sq><sq>[qrbn] with the promotion letter only on a rank-1/8 destination '
           '(colour: rank 8 => white piece, rank 1 => black piece), else the empty move; pinned leniency: a 5th byte " " on a rank-1/8 destination is read as "no promotion"; squares in [0,63], promotion code legal, score 0, argument untouched, no exception, no out-of-bounds read',
           unwind=42, functions=['TextIO::uciStringToMove (textio.cpp:295-337)', 'TextIO::getSquare', 'Move::Move'] + strfn, bounds='every byte string of length 0..%d' % maxlen, stubs=STUB_STR),
        Ob('O1d-uci-rt', u, 'h_uci_rt', 'moveToUCIString(m) is exactly the 4/5-byte UCI text (lower-case q/r/b/n for either colour) and uciStringToMove parses it back: identical move if no promotion; with promotion and destination on rank 8 (rank 1) the same squares and the '
           'WHITE (BLACK) piece of the same kind, i.e. equal to m iff the promotion colour matches the destination rank; with promotion and destination on ranks 2..7 the text does not parse back (empty move)',
           unwind=42, functions=['TextIO::moveToUCIString (textio.cpp:268-293)', 'TextIO::uciStringToMove', 'TextIO::squareToString', 'Move::operator=='] + strfn,
           bounds='all from,to in [0,63], promotion in {0, WQ,WR,WB,WN, BQ,BR,BB,BN}, any score', stubs=STUB_STR),
    ]
    # ------------------------------------------------------------------ O2: readFEN scanner
    anylen = 6 if quick else 8
    tail = 6 if quick else 9
    FENAL = dict(GLIBCXX)
    FENAL.update({'_ZN8Position8setPieceE6Squarei': 'model_setPiece', '_ZN7MoveGen7inCheckERK8Position': 'model_inCheck',
                  '_ZN6TextIO13fixupEPSquareER8Position': 'model_fixupEPSquare',
                  '_Z7str2NumRKNSt7__cxx1112basic_stringIcSt11char_traitsIcESaIcEEERi': 'model_str2Num',
                  '__cxa_allocate_exception': 'model_alloc_exception',
                  '_ZN15ChessParseErrorC2ERKNSt7__cxx1112basic_stringIcSt11char_traitsIcESaIcEEE': 'model_cpe_ctor',
                  '_ZSt24__throw_out_of_range_fmtPKcz': 'model_throw_fmt',
                  '_ZSt20__throw_length_errorPKc': 'model_throw_msg', '_ZSt19__throw_logic_errorPKc': 'model_throw_msg'})
    # NNEvaluator: Position::nnEval == nullptr in every Position built here; std::exception/type_info: exception object construction after the throw event
    uf = Unit('fen', 'C17/fen.cpp', ['h_fen_any', 'h_fen_tail'], defines={'SYM_MAXLEN': anylen, 'FEN_TAIL_MAX': tail}, clang_flags=['-D_GLIBCXX_ASSERTIONS'],
              aliases=FENAL, allow_extern=ALLOW + [r'_ZN11NNEvaluator.*', r'_ZNSt9exceptionD2Ev', r'_ZT[IV]St9exception', r'_ZTVN10__cxxabiv1.*'], throw_ok=True)
    fenstubs = STUB_STR + ['Position::setPiece -> board write asserting square in [0,63], piece in [1,12]', 'MoveGen::inCheck -> arbitrary answer', 'TextIO::fixupEPSquare -> no-op',
                           'str2Num(string,int&) [std::stoi] -> arbitrary (ok,value), asserts its argument is a well-formed non-empty string',
                           '__cxa_allocate_exception -> throw event (ChessParseError = rejection; fails if the specification accepts the input)', 'ChessParseError constructor -> no-op (runs after the throw event)',
                           'std::__throw_out_of_range_fmt/__throw_length_error/__throw_logic_error -> harness assertion failure']
    fenfn = ['TextIO::readFEN (textio.cpp:33-178)', 'TextIO::safeSetPiece', 'TextIO::getSquare', 'Position::Position()', 'Position(const Position&)', 'Position::getPiece/setWhiteMove/setCastleMask/setEpSquare/setHalfMoveClock/setFullMoveCounter',
             'Position::computeZobristHash', 'Square ops', 'std::array<int,64>::operator[] (asserting)'] + strfn
    fendesc = ('no board index outside [0,63], no std::string/std::array precondition violated, no out-of-bounds read, no exception other than ChessParseError, termination; '
               'if accepted: board == independent reading of the placement field, piece codes legal, no pawn on rank 1/8, one king each, castle right => king and rook at home, ep square absent or geometrically possible; '
               'for strictly formed "<placement> <side>[ <castling>[ <ep>[ <n>[ <n>]]]]": exact side, castle mask, ep square, counters, and acceptance iff one king each and not in check')
    # loop 0 = piece-placement scan (whole string); loops 1..11 only ever advance over the symbolic tail (and the 8x8 king count)
    def rfset(n, t): return ','.join('%s.%d:%d' % (RF, i, n if i == 0 else max(t, 9)) for i in range(16))
    obs += [Ob('O2a-fen-any', uf, 'h_fen_any', 'readFEN on arbitrary bytes: ' + fendesc, unwind=66, unwindset=rfset(max(anylen + 2, 9), anylen + 2), core=False, timeout=1500 if quick else 7200, mem_gb=12,
               functions=fenfn, bounds='every byte string of length 0..%d; unwinding: 64-square loops 66, readFEN loops length+2 (unwinding assertions)' % anylen, stubs=fenstubs)]
    obs += [Ob('O2b-fen-tail@%d' % k, uf, 'h_fen_tail', 'readFEN on "%s" + arbitrary tail (short/garbled side, castling, en-passant and counter fields, e.g. a 1-byte en-passant token at the end of the string): ' % PREFIX[k] + fendesc,
               unwind=66, unwindset=rfset(len(PREFIX[k]) + tail + 2, tail + 3), param=k, core=False, timeout=1200 if quick else 7200, mem_gb=12,
               functions=fenfn, bounds='fixed placement field, every tail of 0..%d bytes' % tail, stubs=fenstubs) for k in (1, 2, 3, 4, 5)]
    # ------------------------------------------------------------------ O3: trim + UCI tokenizer
    toklen = 6 if quick else 8
    TOKAL = dict(GLIBCXX)
    TOKAL.update({'isspace': 'model_isspace', '_ZNSt11char_traitsIcE4copyEPcPKcm': 'model_traits_copy',
                  '_ZNSt6vectorINSt7__cxx1112basic_stringIcSt11char_traitsIcESaIcEEESaIS5_EE17_M_realloc_insertIJS5_EEEvN9__gnu_cxx17__normal_iteratorIPS5_S7_EEDpOT_': 'model_realloc_insert'})
    ut = Unit('tok', 'C17/tok.cpp', ['h_tokenize', 'h_trim'], defines={'TOK_MAXLEN': toklen}, clang_flags=['-D_GLIBCXX_ASSERTIONS'], aliases=TOKAL, allow_extern=ALLOW)
    tokstubs = STUB_STR + ['isspace -> "C"-locale definition on glibc\'s domain [-128,255]', 'char_traits<char>::copy (memcpy) -> byte loop', 'vector<string>::_M_realloc_insert -> asserts unreachable (capacity pre-reserved)']
    def tokset(n): return SYMLOOPS + ',%s:%d,%s.0:%d,%s.1:%d,%s.2:%d,model_traits_copy.0:%d,model_traits_copy.1:%d' % (TK, n + 2, TR, n + 2, TR, n + 2, TR, n + 2, n + 3, n + 3)
    obs += [Ob('O3a-trim@len%d' % n, ut, 'h_trim', 'trim(line) = the bytes between the first and the last non-whitespace byte (empty if none); argument untouched, no out-of-bounds read, no precondition violated, no exception',
               unwind=max(n + 2, 8), unwindset=tokset(n), param=n, core=False, functions=['trim (util.cpp:75-86)'] + strfn, bounds='every line of exactly %d bytes' % n, stubs=tokstubs) for n in range(0, toklen + 1)]
    obs += [Ob('O3b-uci-tokenize@len%d' % n, ut, 'h_tokenize', 'tokenize(line): tokens = the maximal runs of non-whitespace bytes, in order, as well-formed strings (pinned quirk: a line without such a run gives one empty token, which handleCommand ignores); '
               'argument untouched, no out-of-bounds read, no precondition violated, no exception',
               unwind=max(n + 2, 8), unwindset=tokset(n), param=n, core=False, timeout=900 if quick else 3600, mem_gb=12,
               functions=['UCIProtocol::tokenize (uciprotocol.cpp:307-329)', 'trim (util.cpp)', 'std::vector<std::string>::clear/push_back/emplace_back (real)', 'basic_string move constructor'] + strfn,
               bounds='every line of exactly %d bytes (case split over the length)' % n, stubs=tokstubs) for n in range(0, toklen + 1)]
    # ------------------------------------------------------------------ O4: the capture test behind the 'x' of algebraic notation (list-of-men oracle of C01)
    SUBST = {'_ZN8BitBoard11rookAttacksE6Squarem': 'model_rookAttacks', '_ZN8BitBoard13bishopAttacksE6Squarem': 'model_bishopAttacks', '_ZN7BitUtil8firstBitEm': 'model_firstBit', '_ZN7BitUtil7lastBitEm': 'model_lastBit'}
    units = [u, uf, ut]
    for K in ([4] if quick else [4, 5]):
        us = Unit('san%d' % K, 'C17/san.cpp', ['h_iscapture'], defines={'NMEN': K},
                  allow_extern=[r'_ZN11NNEvaluator.*', r'_ZNSt.*', r'_ZNKSt.*', r'_ZSt.*', r'_ZN6TextIO.*', r'_ZN7MoveGen.*', r'_Z.*ChessParseError.*', r'__cxa_\w+', r'_ZT[VI].*', r'_Z7num2Str.*', r'_Z9splitLines.*', r'_ZN8BitBoard.*', r'_ZN7BitUtil.*'])
        units.append(us)
        for col in (0, 1):
            for cls, kind in ((6, 'pawn'), (0, 'any kind')):
                if K == 5 and cls == 0: continue
                par = 2 + K * (col + 2 * cls)
                obs.append(Ob('O4-iscapture-K%d@%d' % (K, par), us, 'h_iscapture', 'positions of up to %d men, a %s man of %s moves: isCapture(pos, m) <=> the destination is occupied or m captures en passant, for every pseudo-legal move' % (K, 'white' if col else 'black', kind),
                              unwind=65, param=par, core=(K == 4), timeout=1800, mem_gb=12, backend='kissat', functions=['isCapture (textio.cpp:339-346, file-static)', 'Position::getPiece/getEpSquare/isWhiteMove'],
                              stubs=['none in the code under test (the oracle decides line of sight with the ray-fill model of C01)'],
                              bounds='two kings + up to %d further men of any kind on any squares; any side/castling/ep state the FEN reader accepts; every (to, promotion) of the mover' % (K - 2)))
        for j, who in ((0, 'white king'), (1, 'black king')):
            if K == 5: continue
            obs.append(Ob('O4-iscapture-K%d@%d' % (K, j), us, 'h_iscapture', 'positions of up to %d men, the %s moves (ordinary steps): isCapture <=> destination occupied' % (K, who), unwind=65, param=j, core=True, timeout=1800, mem_gb=12,
                          backend='kissat', functions=['isCapture (textio.cpp:339-346)'], bounds='two kings + up to %d further men' % (K - 2)))
    # ------------------------------------------------------------------ O5: the SAN writer proper (file-static moveToString) on symbolic positions
    for K in ([4] if quick else [4]):
        al = dict(GLIBCXX); al['_ZN7MoveGen10givesCheckERK8PositionRK4Move'] = 'model_givesCheck_off'
        uw = Unit('sanw%d' % K, 'C17/sanw.cpp', ['h_san_writer'], defines={'NMEN': K}, clang_flags=['-D_GLIBCXX_ASSERTIONS'], aliases=al,
                  allow_extern=ALLOW + [r'_ZN11NNEvaluator.*', r'_ZN6TextIO.*', r'_ZN7MoveGen.*', r'_Z.*ChessParseError.*', r'__cxa_\w+', r'_ZT[VI].*', r'_Z7num2Str.*', r'_Z9splitLines.*', r'_ZNSt.*', r'_ZNKSt.*', r'_ZSt.*'])
        units.append(uw)
        for par, txt in ((0, 'black to move, short form'), (1, 'white to move, short form'), (2, 'black to move, long form'), (3, 'white to move, long form')):
            obs.append(Ob('O5-san-writer-K%d@%d' % (K, par), uw, 'h_san_writer', 'positions of up to %d men, %s: moveToString writes castling text exactly for castling moves, ends with the target square (+ promotion letter), '
                          'and never gives two different moves of the move list the same text (file/rank disambiguation)' % (K, txt), unwind=65, param=par, core=False, timeout=1500, mem_gb=12, backend='kissat',
                          functions=['moveToString (textio.cpp:361-443, file-static)', 'isCapture', 'TextIO::pieceToChar', 'libstdc++ basic_string operator+=/push_back/append (real, lowered)'],
                          stubs=STUB_STR + ['MoveGen::givesCheck -> false (the check/mate suffix and the move generation behind # are outside)'],
                          bounds='two kings + up to %d further men of any kind on any squares; any two different pseudo-legal moves of the side to move, both in the list handed to the writer' % (K - 2)))
    return units, obs
