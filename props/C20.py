from vlib.pipeline import Unit, Ob
from props.common import TRUSTED_BASE

LEVEL_TEXT = ('Bounded symbolic model checking (CBMC) of the real BitSet and CspSolver code: bit-set primitives are decided for all 2^64 words and all '
              'arguments in the documented range; one arc-consistency revision is decided for arbitrary 64-bit domains (soundness is inductive over any number of '
              'revisions); solve() is decided exactly (returns true iff a satisfying assignment exists, and the returned one satisfies everything) for every '
              'system within the stated size bounds, the universally quantified assignment being a solver variable.')
ASSUMPTIONS = ['BitSet arguments inside the documented range [-16,47] (resp. [0,191]); out-of-range arguments from external callers are outside the claim',
               'solve(): at most MAXV variables / MAXC constraints, domains inside a window of WIDTH consecutive values at a symbolic base, |c| <= WIDTH+1 (values per tier in obligation bounds)',
               'CspSolver object built in place: std::vector members point at static arrays of sufficient capacity (no reallocation); log stream unused (silent=true)']

def build(tier):
    u = Unit('csp', 'C20/csp.cpp', ['h_bitset64', 'h_bitset192', 'h_arc', 'h_solve', 'h_api'],
             allow_extern=[r'_ZStls.*', r'_ZNSols.*'])  # ostream output under if(!silent): silent is concretely true
    obs = [
        Ob('O1-bitset64', u, 'h_bitset64', 'BitSet<64,-16>: set/clear/getBit, setRange, removeSmaller/Larger, removeOdd/Even, getMin/MaxBit, bitCount, |=, &=, ==, empty vs set semantics',
           unwind=66, functions=['BitSet<64,-16>::* (bitSet.hpp)', 'BitUtil::firstBit/lastBit/bitCount'], bounds='all 2^64 words; arguments in [-16,47]; plus boundary calls removeLarger(-17), removeSmaller(-16)'),
        Ob('O1b-bitset192', u, 'h_bitset192', 'BitSet<192>: setRange(0,n-1) for n in 0..192, set/clearBit, getMin/MaxBit, empty, removeSmaller/Larger vs set semantics',
           unwind=5, functions=['BitSet<192>::* (bitSet.hpp)'], bounds='all 2^192 contents; arguments in [0,191]'),
        Ob('O2-arc@distinct', u, 'h_arc', 'makeArcConsistent on a single constraint v1 <= v2 + c between two distinct variables: never prunes a value of a solution pair, never answers unsolvable when a pair exists, domains only shrink',
           unwind=6, param=0, timeout=1200, functions=['CspSolver::makeArcConsistent (cspsolver.cpp:204-250)', 'BitSet ops'], bounds='arbitrary 64-bit domains D1,D2 (incl. empty); c in [-70,70]; either orientation; revision loop bound 6 (a single arc is stable after one pass; checked by unwinding assertions)'),
        Ob('O2-arc@self', u, 'h_arc', 'makeArcConsistent on a self constraint v <= v + c: sound and exact', unwind=10, param=1, timeout=1200,
           functions=['CspSolver::makeArcConsistent'], bounds='domain inside any window of 6 consecutive values; c in [-70,70]; loop bound 10'),
    ]
    obs.append(Ob('O4-api', u, 'h_api', 'addIneq / addEq record exactly the stated relation in the normal form v1 <= v2 + c (GE swapped and negated, an equality as two inequalities), also between a variable and itself: nothing dropped, nothing added',
                  unwind=6, timeout=600, functions=['CspSolver::addIneq (cspsolver.cpp:104-126)', 'CspSolver::addEq (cspsolver.hpp:117)', 'std::vector<Constraint>::emplace_back (capacity pre-reserved)'],
                  bounds='variables 0..2, offsets in [-70,70], both operators; meaning compared on arbitrary assignments in [-16,47]', stubs=['the constraint vector has capacity for the records (libstdc++ reallocation is not exercised)']))
    units = [u]
    RECUR = '_ZN9CspSolver14solveRecursiveEiRSt6vectorIiSaIiEE'
    ARC = '_ZN9CspSolver17makeArcConsistentEv.0'
    # Exactness of solve().  The obligation calls the two real phases makeArcConsistent() and solveRecursive() in solve()'s order on an object with exactly
    # MAXV variables / MAXC constraints (smaller systems = smaller configurations, so the recursion depth is static); the std::vector::assign boilerplate of
    # solve() itself (values := -1, varToConstr built from the constraints) is done by the harness.
    configs = [(1, 1, 3, True), (2, 2, 2, True), (2, 2, 3, False)] if tier == 'quick' else [(1, 1, 3, True), (2, 1, 3, True), (2, 2, 2, True), (2, 2, 3, False)]   # 3-variable configurations exhaust memory in propositional reduction (16 GB): not registered
    BITS = {'_ZN7BitUtil8firstBitEm': 'model_firstBit', '_ZN7BitUtil7lastBitEm': 'model_lastBit', '_ZN7BitUtil8bitCountEm': 'model_bitCount'}
    ut = Unit('bitlemmas', 'C01/tables.cpp', ['h_bits', 'h_bitcount'])
    units.append(ut)
    obs.append(Ob('L-bits', ut, 'h_bits', 'lemma: firstBit/lastBit == ctz/clz for all masks (justifies the substitution in O3)', unwind=3, timeout=900, functions=['BitUtil::firstBit/lastBit'], bounds='all non-zero 64-bit masks'))
    obs.append(Ob('L-bitcount', ut, 'h_bitcount', 'lemma: bitCount == popcount for all masks', unwind=65, timeout=1800, backend='kissat', functions=['BitUtil::bitCount'], bounds='all 64-bit masks'))
    for (nv, nc, w, core) in configs:
        us = Unit('solve%d%d%d' % (nv, nc, w), 'C20/csp.cpp', ['h_solve'], defines={'MAXV': nv, 'MAXC': nc, 'WIDTH': w, 'DIRECT': None}, aliases=BITS, lemmas=['L-bits', 'L-bitcount'],
                  allow_extern=[r'_ZStls.*', r'_ZNSols.*', r'_ZN9CspSolver5solve.*'])
        units.append(us)
        arcbound = nc * (1 + nv * w) + 1
        obs.append(Ob('O3-solve-%dv%dc-w%d' % (nv, nc, w), us, 'h_solve', 'arc consistency followed by the backtracking search is exact: true => the returned assignment lies in the domains and satisfies every constraint; false => no assignment exists (universally quantified assignment)',
           unwind=max(w + 2, nc + 2, 5), unwindset='%s:%d' % (ARC, arcbound), core=core, timeout=1800 if core else (800 if tier == 'quick' else 5400), mem_gb=16, backend='kissat',
           functions=['CspSolver::makeArcConsistent', 'CspSolver::solveRecursive', 'CspSolver::getBitVal', 'BitSet ops'],
           stubs=['the std::vector::assign boilerplate of CspSolver::solve() is performed by the harness (values := -1, varToConstr from the constraints)', 'firstBit/lastBit/bitCount -> ctz/clz/popcount (lemmas L-bits, L-bitcount)'],
           bounds='exactly %d variables and %d constraints, domains inside a window of width %d at any base in [-16,47], |c| <= width+1, all 4 preference orders, any v1/v2 incl. self constraints; arc-consistency loop bound %d = nConstr*(1+total domain size)+1 (enforced by unwinding assertions)' % (nv, nc, w, arcbound)))
    return units, obs
