from vlib.pipeline import Unit, Ob
from props.common import TRUSTED_BASE

LEVEL_TEXT = ('Bounded symbolic model checking (CBMC) of the real draw-decision kernels lowered through clang IR: Search::canClaimDrawRep is decided against a '
              'naive counting specification for every hash list up to the stated length, every half-move clock, every split between game history and search tree and every '
              'current hash (one solver query per list length, everything else symbolic); Search::canClaimDraw50 for every clock value. Nothing is sampled. Extended: EngineControl::setupPosition with the real std::vector heap growth, '
              'one query per move count and capture/pawn-move pattern (keys symbolic), and two numeric kernels of the console adjudication. How negaScout combines the two tests (mate-before-50-move precedence, score 0), '
              'and the console game adjudication in game.cpp / computerPlayer.cpp (std::string state machine), are outside the claim except for the numeric kernels listed as extended obligations.')
ASSUMPTIONS = ['posHashList[posHashListSize-k] is the position k plies before the current one (search.cpp:178/211/962 push before every makeMove; enginecontrol.cpp:513-531 for the game part)',
               'inside the reversible window (k <= halfMoveClock) an entry at odd distance k, or at distance 2, differs from the current hash (side to move is part of the key; nothing can be undone in two plies)',
               'equal 64-bit hashes are treated as equal positions (Zobrist collisions are outside the claim)',
               '0 <= posHashListSize <= L (L per tier in the obligation bounds); halfMoveClock >= 0; posHashFirstNew is any int',
               'setupPosition (extended): Position::makeMove replaced by its contract on (hash key, half-move clock): new arbitrary key, clock reset by capture/pawn moves and incremented otherwise (makeMove itself is the subject of C02); no NNEvaluator connected to the positions; EngineControl object built in place without running its constructor',
               'insufficientMaterial / drawRuleEquals (extended): piece codes 0..12 on every square; bitboards consistent with the mailbox']

def build(tier):
    # thorough: 104 >= 99 (largest reversible window the search can see, the 50-move test comes first) + slack, so every
    # in-window distance that can occur is covered
    L = 24 if tier == 'quick' else 104
    u = Unit('draw', 'C11/draw.cpp', ['h_rep', 'h_rep_strict', 'h_rep_mem', 'h_draw50'], defines={'MAXL': L})
    obs = []
    for n in range(0, L + 1):
        obs.append(Ob('O1-rep@len%d' % n, u, 'h_rep', 'canClaimDrawRep returns true iff the current hash occurs at least twice among the earlier positions inside the reversible window, or at least once there at an index >= posHashFirstNew (inside the search tree); '
           'in particular (a) third occurrence => draw, (b) in-tree repetition => draw, (c) draw => an earlier in-window occurrence, and two of them if all were played over the board; '
           'the result does not depend on any word outside list[0,posHashListSize)',
           unwind=L + 12, param=n, timeout=900, mem_gb=8,
           functions=['Search::canClaimDrawRep (search.hpp:329-341)', 'Position::zobristHash', 'Position::getHalfMoveClock', 'std::vector<U64>::operator[]'],
           bounds='posHashListSize = %d (one query per length 0..%d), list contents arbitrary 64-bit words, halfMoveClock 0..1000000, posHashFirstNew any int, current hash any 64-bit word; 4 words before and 6 words behind the used part are arbitrary too' % (n, L),
           assumptions=['in-window entries at odd distance or distance 2 differ from the current hash']))
    for n in range(0, L + 1):
        obs.append(Ob('O1b-rep-parity@len%d' % n, u, 'h_rep_strict', 'without any assumption on the list contents: canClaimDrawRep returns true iff, counting only positions with the same side to move (even distance) at least 4 plies back and inside the reversible window, '
           'the current hash occurs twice, or once at an index >= posHashFirstNew; equal words at odd distance or two plies back (possible only as hash collisions) never produce a draw',
           unwind=L + 12, param=n, timeout=900, mem_gb=8,
           functions=['Search::canClaimDrawRep (search.hpp:329-341)', 'Position::zobristHash', 'Position::getHalfMoveClock', 'std::vector<U64>::operator[]'],
           bounds='posHashListSize = %d (one query per length 0..%d), list contents and surrounding words arbitrary, halfMoveClock 0..1000000, posHashFirstNew any int, current hash any 64-bit word' % (n, L)))
    for n in range(0, L + 1):
        obs.append(Ob('O1d-rep-bounds@len%d' % n, u, 'h_rep_mem', 'every index canClaimDrawRep reads lies in [0,posHashListSize): the list is a heap object of exactly posHashListSize words and CBMC pointer checks are on; no repetition with fewer than 4 reversible plies',
           unwind=L + 12, param=n, timeout=900, mem_gb=8,
           functions=['Search::canClaimDrawRep (search.hpp:329-341)'],
           bounds='posHashListSize = %d (object of exactly that many words; one query per length 0..%d), arbitrary contents, halfMoveClock 0..1000000, posHashFirstNew any int; no chess assumptions' % (n, L)))
    obs.append(Ob('O2-draw50', u, 'h_draw50', 'canClaimDraw50 <=> halfMoveClock >= 100', unwind=2,
           functions=['Search::canClaimDraw50 (search.hpp:441-443)'], bounds='halfMoveClock any 32-bit int'))
    # ---- extended: EngineControl::setupPosition (heap-growing history vector)
    SETUP_DESC = ('setupPosition: posHashList[0,posHashListSize) holds exactly the keys of the positions since the last capture/pawn move (or since the start position) in order, excluding the final position, '
                  'and is dropped when that would be more than 100 entries; vector resized to posHashListSize+2*MAX_SEARCH_DEPTH; engine position = position after all moves; history never longer than the final half-move clock')
    SETUP_FUNCS = ['EngineControl::setupPosition (enginecontrol.cpp:513-531)', 'std::vector<U64>::clear/push_back/_M_realloc_insert/resize/_M_default_append', 'Position copy constructor/assignment/destructor']
    SETUP_STUBS = ['Position::makeMove -> model_makeMove (checks the incoming clock, writes a new arbitrary key, clock := 0 or clock+1 as the per-query pattern says, flips the side)']
    def setup_param(n, had, oldn, hc, single, pat):
        return n | (had << 7) | (oldn << 8) | ((0 if hc is None else hc + 1) << 10) | (single << 18) | (pat << 19)
    M = 4 if tier == 'quick' else 6
    ALLOW = [r'_ZN11NNEvaluator.*']   # behind 'if (nnEval)': no evaluator is connected to the positions involved (nnEval concretely null)
    us = Unit('setup', 'C11/setup.cpp', ['h_setup'], defines={'MAXM': M},
              aliases={'_ZN8Position8makeMoveERK4MoveR8UndoInfo': 'model_makeMove'}, allow_extern=ALLOW)
    units = [u, us]
    for n in range(0, M + 1):
        for pat in range(0, 1 << n):
            pstr = ''.join('x' if (pat >> k) & 1 else '-' for k in range(n))
            # start clock: symbolic if the first move resets it; else per-query constants (see harness)
            clocks = (None,) if (n > 0 and (pat & 1)) else (0, 96)
            for (had, hc) in [(h, c) for c in clocks for h in ((0, 1) if n in (0, 3) else (1 if (pat + n) % 2 else 0,))]:   # previous history block: both cases for n=0 and n=3, alternating otherwise
                oldn = (pat + n) % 4
                obs.append(Ob('O3-setupPosition@%d:%s:%s:%s' % (n, pstr, 'blk' if had else 'nul', 'clk*' if hc is None else 'clk%d' % hc), us, 'h_setup', SETUP_DESC,
                   unwind=210, core=False, param=setup_param(n, had, oldn, hc, 0, pat), timeout=600, mem_gb=8, functions=SETUP_FUNCS, stubs=SETUP_STUBS,
                   bounds='%d moves, capture/pawn-move pattern "%s" (x = resets the clock; every pattern of every length 0..%d is a separate query), any keys, start clock %s, previous history vector %s; '
                          'the "more than 100 entries => dropped" branch is not reachable within this bound (see the @long queries)'
                          % (n, pstr, M, 'any value in 0..1000' if hc is None else '= %d (constant of this query)' % hc, 'a 3-word heap block with %d used entries (arbitrary keys)' % oldn if had else 'empty without storage')))
    # long games around the 100-entry limit: at most one capture/pawn move, at a fixed move number
    ML = 104
    ul = Unit('setuplong', 'C11/setup.cpp', ['h_setup'], defines={'MAXM': ML},
              aliases={'_ZN8Position8makeMoveERK4MoveR8UndoInfo': 'model_makeMove'}, allow_extern=ALLOW)
    units.append(ul)
    longs = [(100, 127, 0), (101, 127, 0), (104, 50, 3)] if tier == 'quick' else [(99, 127, 7), (100, 127, 0), (101, 127, 0), (104, 127, 96), (102, 0, None), (103, 1, 0), (104, 2, 0), (104, 50, 3)]
    for (n, z, hc) in longs:
        obs.append(Ob('O3-setupPosition@long%d:%s:%s' % (n, 'none' if z >= n else 'x%d' % z, 'clk*' if hc is None else 'clk%d' % hc), ul, 'h_setup', SETUP_DESC,
           unwind=210, unwind_fn={r'__ir_mem\w+_n': 2500}, core=False, param=setup_param(n, 1, 2, hc, 1, z), timeout=1800, mem_gb=12, functions=SETUP_FUNCS, stubs=SETUP_STUBS,   # vector reallocation copies up to 300 words byte by byte
           bounds='%d moves, %s, any keys, start clock %s, previous history vector a 3-word heap block with 2 used entries'
                  % (n, 'no capture/pawn move' if z >= n else 'exactly one capture/pawn move: move number %d' % z, 'any value in 0..1000' if hc is None else '= %d (constant of this query)' % hc)))
    # ---- extended: numeric kernels of the console game adjudication (game.cpp)
    ug = Unit('game', 'C11/gamekernels.cpp', ['h_insufficient', 'h_drawrule_equals'], allow_extern=[])
    units.append(ug)
    obs.append(Ob('O4-insufficientMaterial', ug, 'h_insufficient', 'Game::insufficientMaterial (state DRAW_NO_MATE) <=> no queen, rook or pawn on the board and (at most one minor piece, or only bishops all standing on squares of one colour)',
       unwind=66, core=False, timeout=900, mem_gb=8, functions=['Game::insufficientMaterial (game.cpp:446-468)', 'Position::pieceTypeBB', 'BitBoard::bitCount'],
       bounds='every 64-square board over the 13 piece codes (any number of kings and pieces); piece bitboards built directly from the mailbox as setPiece maintains them'))
    obs.append(Ob('O5-drawRuleEquals', ug, 'h_drawrule_equals', 'Position::drawRuleEquals (used to validate "draw rep" claims) <=> same board, side to move, castling rights and en-passant square; clocks, move number and cached hash play no role; symmetric',
       unwind=66, core=False, timeout=900, mem_gb=8, functions=['Position::drawRuleEquals (position.hpp:335-346)'],
       bounds='two arbitrary positions: 64 squares x piece codes 0..12 each, arbitrary 32-bit castle masks, en-passant squares, clocks, move numbers, 64-bit keys'))
    return units, obs
