from vlib.pipeline import Unit, Ob
from props.common import TRUSTED_BASE

LEVEL_TEXT = ('Bounded symbolic model checking (CBMC) of the real TranspositionTable code lowered through clang IR: each obligation '
              'is decided for every value of its symbolic inputs inside the stated ranges; nothing is sampled. Interleavings of '
              'concurrent stores are modelled as a symbolic choice of which stored unit each of the two relaxed-atomic words of a slot comes from.')
ASSUMPTIONS = ['table sizes in [512, 2^35] entries, multiple of 4 (sizes below 512 are outside the property domain)',
               'plies in [0,200], scores within [-(32000-ply), 32000-ply]',
               'torn reads: no 64-bit XOR coincidence k_a^d_a^d_b == K between two units that are both stored for other keys (probability 2^-64, inherent to the lock-less scheme)']

FUNCS = ['TranspositionTable::setUsedSize (transpositionTable.cpp)', 'TranspositionTable::getIndex', 'TranspositionTable::probe',
         'TranspositionTable::insert', 'TranspositionTable::setBusy', 'TTEntry::store/load/setBits/getBits/setScore/getScore/betterThan/get*/set*',
         'Move::getCompressedMove/setFromCompressed']

def build(tier):
    u = Unit('tt', 'C08/tt.cpp', ['h_index', 'h_index_spread', 'h_pack', 'h_score'])
    # bucket-level unit: getIndex replaced by a 4-bucket model with the contract proved in O1
    ub = Unit('ttbucket', 'C08/tt.cpp', ['h_torn', 'h_insert', 'h_setbusy'], aliases={'_ZNK18TranspositionTable8getIndexEm': 'model_getIndex'})
    obs = [
        Ob('O1-index', u, 'h_index', 'setUsedSize+getIndex: for all sizes 512..2^35 and all 64-bit keys the bucket [idx,idx+3] is 4-aligned and below usedSize',
           unwind=40, functions=FUNCS[:2], bounds='usedSize in [512,2^35] (multiple of 4); key any 64-bit value; loop in setUsedSize unwound 40 (>= 28 needed)'),
        Ob('O1b-spread', u, 'h_index_spread', 'index mapping reaches bucket 0 and the top 1/64 of the table for every size', unwind=40, functions=FUNCS[:2],
           bounds='usedSize in [512,2^35]'),
        Ob('O2-pack', u, 'h_pack', 'every field setter/getter pair round-trips and leaves the other fields and the key intact; store/load xor encoding round-trips',
           unwind=2, functions=FUNCS[5:], bounds='arbitrary 64-bit key/data words; field values over their full declared ranges'),
        Ob('O4-matescore', u, 'h_score', 'mate score stored at ply p1 and read at ply p2 is shifted by exactly p1-p2; non-mate scores unchanged; other fields untouched',
           unwind=2, functions=['TTEntry::setScore', 'TTEntry::getScore', 'SearchConst::isWinScore/isLoseScore'], bounds='p1,p2 in [0,200]; |score| <= 32000-p1'),
        Ob('O3-torn', ub, 'h_torn', 'probe on a bucket whose four slots each mix word0 of one stored unit with word1 of another never returns a blend: a hit returns data stored as one unit for the probed key',
           unwind=33, functions=['TTEntry::store', 'TTEntry::load', 'TranspositionTable::probe', 'TranspositionTable::getIndex'],
           bounds='4 slots x 2 symbolic units (older/newer store) per slot; every atomic load of a slot word is an independent event observing either store (read-read coherence respected), so double loads are covered; 16-slot table, index function abstracted to its O1 contract; symbolic contempt hash and generation',
           stubs=['every relaxed 64-bit atomic load in probe -> verif_atomic_load64 event (harness hook, applied at IR level in CBMC and in the native replay build); stores are plain']),
        Ob('O5-insert', ub, 'h_insert', 'insert from an arbitrary bucket state: at most one slot written, neighbours untouched, written unit decodes to the inserted record, replacement policy (same key first, else least valuable, deeper exact same-key entry kept), probe afterwards hits',
           unwind=6, timeout=900, functions=FUNCS[2:5], bounds='arbitrary bucket contents (8 symbolic words); depth in [-8,511]; ply in [0,200]; type in {EXACT,GE,LE}; any move squares/promotion 0..12'),
        Ob('O5b-setbusy', ub, 'h_setbusy', 'setBusy re-stores the same unit with the busy flag', unwind=6, functions=FUNCS[2:5],
           bounds='arbitrary bucket with a hit for the key; ply in [0,200]; scores whose win/loss class is stable under the ply shift; contempt 0 (with a non-zero contempt setBusy hands the already xor-ed key to insert, which xors it again: the busy marker then goes to another key - outside C08\'s statement, see DESIGN section 6)'),
    ]
    # ---- O6: isolation of the tablebase region ("ordinary stores never touch that part"): the C12 obligations O6-region (byte window of TTStorage vs the buckets
    # getIndex can yield, table sizes up to 2^35 entries) and O6-lanes (byte-lane arithmetic), and O5-updatetb (updateTB installs exactly usedSize = tableSize - 5 MiB/16, the premise of O6-region), re-run under this property; quick: one material class per men count
    import copy
    from props import C12
    units12, obs12 = C12.build(tier)
    extra = []
    want = ('O6-region@c0', 'O6-region@c1', 'O6-region@c9') if tier == 'quick' else None
    for o in obs12:
        if o.oid == 'O6-lanes' or o.oid.startswith('O5-updatetb') or (o.oid.startswith('O6-region') and (want is None or o.oid in want)):
            o2 = copy.copy(o); obs.append(o2)
            if o.unit not in extra: extra.append(o.unit)
            for lem in o.unit.lemmas:
                for l in obs12:
                    if l.oid.startswith(lem) and l.oid not in [x.oid for x in obs]:
                        obs.append(copy.copy(l))
                        if l.unit not in extra: extra.append(l.unit)
    return [u, ub] + extra, obs
