from vlib.pipeline import Unit, Ob
from props.common import TRUSTED_BASE

LEVEL_TEXT = ('Bounded symbolic model checking (CBMC) of the real NNEvaluator bookkeeping: each operation (setPiece, pushState, popState, forceFullEval, computeL1WB, computeL1Out) '
              'is decided as ONE step from an arbitrary state satisfying the accumulator invariant, for a symbolic K-man board and for EVERY weight table (weights are an '
              'uninterpreted function of the row index), so the incremental state equals the from-scratch value after any history of such steps. The feature-index symmetries '
              '(colour swap, left-right mirror) that make the network output symmetric are decided exactly for all arguments. Layers 2-4, SIMD kernel variants, the '
              'hand-mirrored end-game rules and the evaluation caches are outside the claim.')
ASSUMPTIONS = ['vector kernels addSubWeights<256,20480>, copyVec<S16,256>, scaleClipPack<2,256> replaced by row-recording models (signed multiset of added/subtracted weight rows, kept inside the accumulator storage so that the real struct copies carry it); the arithmetic of the generic and SIMD kernels themselves is not checked',
               'boards with two kings + up to NMEN-2 other men (quick: 4 men); the refresh loop treats men independently', 'the state stack is compiled with 4 levels instead of 200 (SearchConst::MAX_SEARCH_DEPTH overridden to 2 for this unit); stack depth at the step in [0,2]; the code indexes the stack uniformly',
               'Position side: C02 proves the board/piece-set consistency this harness builds directly']
K1 = {'_Z13addSubWeightsILi256ELi20480EEvR6VectorIsXT_EERK6MatrixIsXT0_EXT_EEPKiiS8_i': 'model_addSubWeights', '_Z7copyVecIsLi256EEvR6VectorIT_XT0_EERKS2_': 'model_copyVec',
      '_Z13scaleClipPackILi2ELi256EEvPaRK6VectorIsXT0_EE': 'model_scaleClipPack',
      '_ZN8BitBoard11rookAttacksE6Squarem': 'model_rookAttacks', '_ZN8BitBoard13bishopAttacksE6Squarem': 'model_bishopAttacks', '_ZN7BitUtil8firstBitEm': 'model_firstBit', '_ZN7BitUtil7lastBitEm': 'model_lastBit'}
F = ['NNEvaluator::setPiece (nneval.cpp:146-184)', 'NNEvaluator::pushState/popState/forceFullEval (93-125)', 'NNEvaluator::computeL1WB (186-232)', 'NNEvaluator::computeL1Out', 'getIndex (nneval.cpp:127-144)', 'NNEvaluator::ptValue']

def build(tier):
    K = 4 if tier == 'quick' else 5
    u = Unit('nnacc', 'C07/nnacc.cpp', ['h_index', 'h_setpiece', 'h_compute', 'h_pushpop', 'h_l1out'], defines={'NMEN': K}, aliases=K1,
             allow_extern=[r'_ZN5Layer.*', r'_ZN7NetData.*', r'_ZNSt.*', r'_ZSt.*', r'_Z.*matMul.*', r'_ZN11NNEvaluator(4eval|6create|C[12]|D[12]).*'])
    st = ['addSubWeights/copyVec -> row-recording models; scaleClipPack -> records source/destination', 'slider/bit kernels -> models proved in C01-O1 (only reached through Position::getKingSq/occupiedBB helpers)']
    obs = [
        Ob('O3-index', u, 'h_index', 'getIndex: range, injectivity up to the king left-right normalisation, colour-swap symmetry, left-right mirror symmetry; ptValue layout', unwind=3,
           functions=F[4:], bounds='all king squares, piece types 0..9, squares, both perspectives'),
    ]
    for top in (0, 1, 2):
        obs += [
        Ob('O1-setpiece@depth%d' % top, u, 'h_setpiece', 'setPiece keeps the accumulator invariant for both perspectives (incl. queue overflow -> invalidate, king calls ignored)', unwind=65, timeout=1800, backend='kissat', param=top,
           functions=F[:1] + F[4:], bounds='%d-man boards; arbitrary queue contents/lengths 0..4 satisfying the invariant; any non-king piece change; stack depth %d' % (K, top), stubs=st),
        Ob('O1-compute@depth%d' % top, u, 'h_compute', 'computeL1WB leaves both perspectives equal to the from-scratch accumulator for the actual king squares, queues flushed, all indices in range', unwind=65, unwind_fn={r'_ZN11NNEvaluator11computeL1WBEv': K}, mem_gb=24, timeout=1800, backend='kissat', param=top,
           functions=F[2:3] + F[4:], bounds='%d-man boards; arbitrary invariant-satisfying pre-state incl. invalid and stale-king states; stack depth %d' % (K, top), stubs=st),
        Ob('O1-pushpop@depth%d' % top, u, 'h_pushpop', 'pushState copies a flushed consistent state upward and keeps the saved level consistent; popState restores the level below untouched or forces a refresh on underflow; forceFullEval invalidates', unwind=65, unwind_fn={r'_ZN11NNEvaluator11computeL1WBEv': K}, mem_gb=24, timeout=1800, backend='kissat', param=top,
           functions=F[1:3], bounds='%d-man boards; stack depth %d' % (K, top), stubs=st),
        ]
    obs.append(Ob('O2-l1out', u, 'h_l1out', 'computeL1Out orders the two accumulator halves by side to move', unwind=65, functions=F[3:4], bounds='both sides to move, depth 0', stubs=st))
    # extended: colour-swap symmetry of one hand-mirrored end-game rule (the only part of EndGameEval that is straight-line bitboard code small enough to encode whole)
    ue = Unit('endgame', 'C07/endgame.cpp', ['h_bishoppawn_sym', 'h_bishoppawn_mirror', 'h_kpkp_sym'], aliases={'_ZN7BitUtil8firstBitEm': 'model_firstBit', '_ZN7BitUtil7lastBitEm': 'model_lastBit', '_ZN7BitUtil8bitCountEm': 'model_bitCount'},
              allow_extern=[r'_ZN11NNEvaluator.*', r'_ZN11EndGameEval(?!16isBishopPawnDraw|8kpkpEval).*', r'_ZN7MoveGen.*', r'_ZN8BitBoard.*', r'_ZN6TBProbe.*', r'_ZNSt.*', r'_ZSt.*', r'_Z\w*kpkTable.*', r'_Z\w*krkpTable.*', r'_Z.*interpolate.*'])
    obs.append(Ob('O4-bishoppawn-symmetry', ue, 'h_bishoppawn_sym', 'EndGameEval::isBishopPawnDraw<white>(P) == isBishopPawnDraw<black>(colour-swapped P) for every board', unwind=65, core=False, timeout=1800, mem_gb=16, backend='kissat',
                  functions=['EndGameEval::isBishopPawnDraw<true/false> (endGameEval.cpp:587-720)'], stubs=['firstBit/lastBit/bitCount -> ctz/clz/popcount (proved in C01-O1)'],
                  bounds='all 13^64 boards with one king each and no pawn on ranks 1/8, both sides to move; material sums computed from the board with the default piece values'))
    obs.append(Ob('O4c-kpkp-symmetry', ue, 'h_kpkp_sym', 'EndGameEval::kpkpEval (blocked b/g-pawn fortress of K+P v K+P, four hand-mirrored copies): same verdict and score for the left-right mirrored and for the colour-swapped position', unwind=4, core=False, timeout=600,
                  functions=['EndGameEval::kpkpEval (endGameEval.cpp:985-1015)'], bounds='any king squares, any pawn squares on ranks 2..7, any incoming score'))
    for par, txt in ((0, 'the side has at least one bishop'), (1, 'the side has NO bishop')):
        obs.append(Ob('O4b-bishoppawn-mirror@%d' % par, ue, 'h_bishoppawn_mirror', 'EndGameEval::isBishopPawnDraw<white>(P) == isBishopPawnDraw<white>(left-right mirrored P), ' + txt, unwind=65, core=False, param=par, timeout=1800, mem_gb=16, backend='kissat',
                      functions=['EndGameEval::isBishopPawnDraw<true> (endGameEval.cpp:587-720)'], stubs=['firstBit/lastBit/bitCount -> ctz/clz/popcount (proved in C01-O1)'],
                      bounds='all boards with one king each, no pawn on ranks 1/8, no white queen/rook/knight (the caller\'s precondition), both sides to move'))
    # ---- O5: the score cache of evalPos is keyed so that half-move clocks with different scaling never share a tag
    uc = Unit('evalcache', 'C07/evalcache.cpp', ['h_evalcache'],
              aliases={'_ZN11NNEvaluator4evalEv': 'model_nnEval', '_ZN8Evaluate13materialScoreEb': 'model_materialScore', '_ZN8Evaluate16getEvalHashEntryEm': 'model_getEvalHashEntry'},
              allow_extern=[r'_ZN11NNEvaluator.*', r'_ZN11EndGameEval.*', r'_ZN7MoveGen.*', r'_ZN6TBProbe.*', r'_ZNSt.*', r'_ZNKSt.*', r'_ZSt.*', r'_ZN10Parameters.*', r'_ZN14ParamTableBase.*', r'_ZN14ComputerPlayer.*', r'_ZT[VI].*', r'__cxa_\w+', r'_Z.*'])
    for par, txt in ((0, 'more men than the tablebase limit (keys: plain below clock 40, per decade 40..79, per clock from 80)'), (1, 'within the tablebase limit (one key per clock)')):
        obs.append(Ob('O5-evalcache@%d' % par, uc, 'h_evalcache', 'Evaluate::evalPos through a cache slot warmed by the same position at another half-move clock returns the cold-slot value (%s): the history-hash tag separates every two clocks whose half-move scaling differs' % txt,
                      unwind=15, param=par, core=True, timeout=900, mem_gb=8, backend='kissat',
                      functions=['Evaluate::evalPos<false> (evaluate.cpp:73-118)', 'Position::historyHash (position.hpp:304-315)', 'moveCntKeys[], halfMoveFactor[] (dumped natively)', 'interpolate', 'clamp'],
                      stubs=['NNEvaluator::eval, Evaluate::materialScore -> one arbitrary value per run (same board)', 'getEvalHashEntry -> the slot chosen by the harness', 'mhd->endGame = false'],
                      bounds='any hash key, side, material sums, piece sets, contempt in [-2000,2000]; half-move clocks 0..200 each; network output in [-20000,20000], material score in [-5000,5000]'))
    # ---- O6: overwriting a connected Position by assignment invalidates the incremental state
    up = Unit('poscopy', 'C07/poscopy.cpp', ['h_poscopy'], aliases={'_ZN11NNEvaluator13forceFullEvalEb': 'model_forceFullEval'}, allow_extern=[r'_ZN11NNEvaluator(?!13forceFullEval).*'])
    for par, txt in ((0, 'copy-assignment'), (1, 'move-assignment')):
        obs.append(Ob('O6-poscopy@%d' % par, up, 'h_poscopy', 'Position %s onto a position an evaluator is connected to: the whole state is replaced, the connection is kept and the evaluator is told to recompute from scratch (exactly once)' % txt,
                      unwind=66, param=par, core=True, timeout=600, functions=['Position::operator= (position.cpp:80-92)', 'Position::forceFullEval'], stubs=['NNEvaluator::forceFullEval -> recorder (its effect: O1-pushpop)'],
                      bounds='arbitrary contents of both positions'))
    return [u, ue, uc, up], obs
