import os
from vlib.pipeline import Unit, Ob
from props.common import TRUSTED_BASE

LEVEL_TEXT = ('Bounded symbolic model checking (CBMC) of the real time-management code lowered through clang IR: EngineControl::computeTimeLimit for every '
              'clock / increment / moves-to-go / move-time / side / Ponder / BufferTime combination of the domain (IEEE doubles encoded exactly); the limits that '
              'startSearch / startPonder / ponderHit / stopSearch actually hand to Search::timeLimit, for any number of legal moves; and one evaluation of the stop '
              'predicate Search::shouldStop for every clock value and every installable limit pair. Nothing is sampled. Outside the claim: how often the predicate is '
              'polled (nodesBetweenTimeCheck), the in-line time tests of iterativeDeepening, stop propagation to helper threads, thread scheduling / wall-clock latency, '
              'the MaxNPS sleep inside shouldStop (it can delay the *next* poll), analyse-mode eval printing, and text parsing of the go command.')
ASSUMPTIONS = ['go parameters inside the property domain: wtime,btime 1..10^7 ms (both given), winc,binc 0..10^5, movestogo 0..100, movetime 1..10^5, BufferTime 1..10000, Ponder on/off, either side to move',
               'clock budget proved: hard <= clock - min(BufferTime, floor(9*clock/10)); this equals the literal "clock minus BufferTime" whenever 10*BufferTime <= 9*clock; for smaller clocks '
               '(including clock < BufferTime, where the literal budget is below the mandatory minimum 1) it is ceil(clock/10). In the window floor(9*clock/10) < BufferTime < clock-1 the engine may '
               'use more than clock-BufferTime (obligation O1x-literal states the literal reading; it is violated there and recorded as a known finding, e.g. wtime=1050 movestogo=1 BufferTime=1000 -> limits (105,105) > 50)',
               'shouldStop: monotonic millisecond clock below 2^53, a search lasts < 2^36 ms, node counters < 2^50, MaxNPS in its UCI range 0..10^7, hardFactor in [0.3,3.5] '
               '(its invariant: search.cpp:149,220,229,273), installed limits are (-1,-1) or 0 <= soft <= hard (what O1/O2 prove)',
               'first search of the session (no previous Search object to destroy), analyseMode off, a depth/nodes/mate limit present when no time control is given (go infinite prints an evaluation through iostreams: outside)']

F_CTL = ['EngineControl::computeTimeLimit (enginecontrol.cpp:355-403)', 'clamp (util.hpp:77)', 'Param<>::operator int (parameters.hpp:230,239)', 'Parameters::CheckParam::getBoolPar']
F_O2 = ['EngineControl::startSearch (310-318)', 'EngineControl::startPonder (321-328)', 'EngineControl::ponderHit (331-341)', 'EngineControl::stopSearch/stopThread (344,503-510)',
        'EngineControl::startThread (450-500)', 'EngineControl::computeTimeLimit', 'std::make_shared<Search>/<MoveList>, shared_ptr control blocks, std::vector<Move>::operator=']
F_O3 = ['Search::shouldStop (search.cpp:436-471)', 'Search::getTotalNodes (search.hpp:446)', 'Communicator::getNumSearchedNodes', 'RelaxedShared<>::operator T']
S_ENV = ['parameter objects (bufferTime, UciParams::ponder, ...) are harness-defined storage with fields set directly (parameters.cpp not in the unit); they are read by the real accessors']
S_CTL = S_ENV + ['Search::timeLimit -> records its arguments (observation point)', 'Search::Search, Search::setStrength, Search::setWhiteContempt, EngineControl::getStrength/getMaxNPS/getWhiteContempt -> no-ops / constants',
         'MoveGen::pseudoLegalMoves<wtm>/removeIllegal -> arbitrary legal-move count 0..256; MoveList::filter -> arbitrary smaller count', 'EngineControl::setupPosition -> installs the new position\'s side to move (before the call pos holds an arbitrary previous side); Position copy-ctor/dtor of its argument -> no-ops',
         'EngineMainThread::waitStop/waitOptionsSet -> no-ops; EngineMainThread::startSearch -> records depth/ponder/infinite; Communicator::getCTT -> dummy reference',
         'EngineControl / EngineMainThread objects are raw typed storage (constructors not run); the reference members engineThread/listener are bound by the harness']
S_STOP = ['currentTimeMillis -> symbolic non-decreasing clock (two readings)', 'Communicator::poll -> no-op (no helper-thread result arrives; otherwise shouldStop throws HelperThreadResult)',
          'Search::notifyStats -> counter', 'std::this_thread::sleep_for -> records the duration', 'Search object is raw typed storage with symbolic fields; reference member comm bound to a raw ThreadCommunicator']


SYM_ALIASES = {'_ZNK5ParamILi35ELi2ELi200ELb0EEcviEv': 'model_timeMaxRemainingMoves',
               '_ZNK5ParamILi400ELi100ELi1000ELb0EEcviEv': 'model_maxTimeUsage',
               '_ZNK5ParamILi35ELi0ELi99ELb0EEcviEv': 'model_timePonderHitRate'}

CTL_ALIASES = {
    '_ZN6Search9timeLimitEiiil': 'model_Search_timeLimit',
    '_ZN6SearchC1ERK8PositionRKSt6vectorImSaImEEiRNS_12SearchTablesER12CommunicatorR21TreeLoggerWriterDummy': 'model_Search_ctor',
    '_ZN6Search11setStrengthEimi': 'model_setStrength',
    '_ZN6Search16setWhiteContemptEi': 'model_setWhiteContempt',
    '_ZNK13EngineControl11getStrengthEv': 'model_getStrength',
    '_ZNK13EngineControl9getMaxNPSEv': 'model_getMaxNPS',
    '_ZN13EngineControl16getWhiteContemptEb': 'model_getWhiteContempt',
    '_ZN7MoveGen16pseudoLegalMovesILb1EEEvRK8PositionR8MoveList': 'model_pseudoLegal_w',
    '_ZN7MoveGen16pseudoLegalMovesILb0EEEvRK8PositionR8MoveList': 'model_pseudoLegal_b',
    '_ZN7MoveGen13removeIllegalER8PositionR8MoveList': 'model_removeIllegal',
    '_ZN8MoveList6filterERKSt6vectorI4MoveSaIS1_EE': 'model_filter',
    '_ZN13EngineControl13setupPositionE8PositionRKSt6vectorI4MoveSaIS2_EE': 'model_setupPosition',
    '_ZN8PositionC1ERKS_': 'model_PositionCopy',
    '_ZN8PositionD1Ev': 'model_PositionDtor',
    '_ZN16EngineMainThread8waitStopEv': 'model_waitStop',
    '_ZN16EngineMainThread14waitOptionsSetEv': 'model_waitOptionsSet',
    '_ZN12Communicator6getCTTEv': 'model_getCTT',
    '_ZN16EngineMainThread11startSearchEP13EngineControlRSt10shared_ptrI6SearchERK8PositionRS2_I8MoveListEbbiiiiRSt6atomicIbESE_': 'model_startSearch',
}

# Reachable in the call graph of startThread only behind 'analyseMode || infinite' (eval print for analysis; both false in
# every harness of this unit), plus the by-value Position copy handed to the setupPosition stub and libstdc++ internals of
# shared_ptr (single-thread flag, typeinfo vtables whose address only is taken).
CTL_EXTERN = [r'_ZN8Evaluate.*', r'_ZNSt7__cxx11.*', r'_ZNKSt7__cxx11.*', r'_ZNSo.*', r'_ZSt.*',
              r'_ZTVN10__cxxabiv1.*', r'__libc_single_threaded']

# virtual functions reached through the shared_ptr<MoveList> control block when startThread's local 'moves' goes out of scope
CTL_ROOTS = ['_ZNSt23_Sp_counted_ptr_inplaceI8MoveListSaIvELN9__gnu_cxx12_Lock_policyE2EE10_M_disposeEv',
             '_ZNSt23_Sp_counted_ptr_inplaceI8MoveListSaIvELN9__gnu_cxx12_Lock_policyE2EE10_M_destroyEv']

STOP_ALIASES = {'_Z17currentTimeMillisv': 'model_currentTimeMillis',
                '_ZN12Communicator4pollERNS_14CommandHandlerE': 'model_poll',
                '_ZN6Search11notifyStatsEv': 'model_notifyStats',
                '_ZNSt11this_thread9sleep_forIlSt5ratioILl1ELl1000EEEEvRKNSt6chrono8durationIT_T0_EE': 'model_sleep_for'}

def build(tier):
    thorough = tier == 'thorough'
    u = Unit('tl', 'C06/timelimit.cpp', ['h_clock', 'h_movetime', 'h_clock_literal'])
    us = Unit('tlsym', 'C06/timelimit.cpp', ['h_clock_sym'], aliases=SYM_ALIASES)
    uc = Unit('ctl', 'C06/timelimit.cpp', ['h_go', 'h_ponder', 'h_stop', 'h_ponderhit'], aliases=CTL_ALIASES, allow_extern=CTL_EXTERN,
              clang_flags=['-fno-rtti'], extra_roots=CTL_ROOTS)
    ust = Unit('stop', 'C06/stop.cpp', ['h_stop_time', 'h_stop_nodes', 'h_stop_soft', 'h_install', 'h_polling'], aliases=STOP_ALIASES, clang_flags=['-fno-rtti'])
    D_CLOCK = ('computeTimeLimit, clock mode: 1 <= minTimeLimit <= maxTimeLimit <= clock - min(BufferTime, floor(9*clock/10)) for the side to move; hence <= clock - BufferTime when 10*BufferTime <= 9*clock, '
               '<= ceil(clock/10) otherwise, and < clock for clock >= 2; earlyStopPercentage = -1; depth/node limits as given; previous field contents irrelevant; no signed overflow, '
               'no out-of-range double->int conversion')
    B_GO = 'wtime,btime 1..10^7; winc,binc 0..10^5; movestogo 0..100; depth,mate 0..1000; nodes >= 0; BufferTime 1..10000; Ponder option and side to move symbolic'
    MODE = {0: 'clock', 1: 'movetime', 2: 'no time control', 3: 'no time control, depth/nodes/mate limit'}
    obs = [
        Ob('O1a-clock', u, 'h_clock', D_CLOCK + ' [time-management constants as compiled: timeMaxRemainingMoves=35, maxTimeUsage=400, timePonderHitRate=35]',
           unwind=2, timeout=600, backend='kissat', functions=F_CTL, bounds=B_GO, stubs=S_ENV),
        Ob('O1b-clock-sym', us, 'h_clock_sym', D_CLOCK + ' [the three compile-time constants replaced by any value of their declared ranges]',
           unwind=2, timeout=600, backend='kissat', functions=F_CTL, bounds=B_GO + '; timeMaxRemainingMoves 2..200, maxTimeUsage 100..1000, timePonderHitRate 0..99',
           stubs=S_ENV + ['Param<35,2,200,false>/Param<400,100,1000,false>/Param<35,0,99,false>::operator int -> symbolic value in the declared range (useUciParam=false makes them constants in the shipped build)']),
        Ob('O1c-movetime', u, 'h_movetime', 'computeTimeLimit: movetime given => soft = hard = movetime and earlyStopPercentage = 10000 whatever clocks are given too; no time control (or infinite) => (-1,-1,-1); depth = min(depth, 2*mate-1), nodes as given',
           unwind=2, timeout=300, functions=F_CTL, bounds='movetime 1..10^5; wtime,btime 0..10^7; others as O1a', stubs=S_ENV),
        Ob('O2c-stop', uc, 'h_stop', "stopSearch: a running search receives limits (0,0) with its start time untouched; ponder and infinite flags cleared; nothing is sent when no search object exists",
           unwind=3, timeout=300, functions=F_O2[3:4], bounds='arbitrary previous limits and flags', stubs=S_CTL),
        Ob('O2d-ponderhit', uc, 'h_ponderhit', 'ponderHit from any state satisfying the O1 post-condition: installs 1 <= soft <= hard <= budget (never larger than computed; (1,1) with a single legal move), keeps early-stop percentage and start time, clears the ponder flag; (-1,-1) stays (-1,-1)',
           unwind=3, timeout=300, functions=F_O2[2:3], bounds='1 <= soft <= hard <= budget or (-1,-1); arbitrary earlyStopPercentage, depth, nodes, onePossibleMove', stubs=S_CTL),
    ]
    obs += [Ob('O2a-go@%d' % m, uc, 'h_go', "go (%s): startSearch -> stopThread, computeTimeLimit, startThread: exactly one Search::timeLimit call; clock: 1 <= soft <= hard <= budget (<= 100 ms with < 2 legal moves); "
               "movetime: soft = hard = movetime, early stop off (1 <= soft = hard <= min(movetime,100) with < 2 legal moves); none: (-1,-1) and depth <= 2 with < 2 legal moves; start time = arrival of go" % MODE[m],
               unwind=3, timeout=600, param=m, backend='kissat', functions=F_O2, bounds=B_GO + '; legal moves 0..256; searchmoves absent or filtering to any smaller count', stubs=S_CTL) for m in (0, 1, 3)]
    obs += [Ob('O2b-ponder@%d' % m, uc, 'h_ponder', "go ponder (%s) then ponderhit: while pondering the search gets (-1,-1); ponderhit installs the computed limits: 1 <= soft <= hard <= budget / movetime / none, "
               "(1,1) with < 2 legal moves, start time kept (elapsed time counts from go ponder)" % MODE[m],
               unwind=3, timeout=600, param=m, backend='kissat', functions=F_O2, bounds=B_GO + '; legal moves 0..256', stubs=S_CTL) for m in (0, 1, 2)]
    B_STOP = 'tStart <= now < 2^53, elapsed < 2^36 ms; limits (-1,-1) or 0 <= soft <= hard < 2^31; earlyStopPercentage 1..10000; hardFactor any double in [0.3,3.5]; searchNeedMoreTime, tLastStats, jobId symbolic; node counters < 2^50'
    for nps in (0, 1):
        tag = '@nps' if nps else ''
        obs += [
            Ob('O3a-stop-time' + tag, ust, 'h_stop_time', 'shouldStop without node limit%s: elapsed >= hard (hard >= 0) => true; (0,0) => true at once; (-1,-1) => false; exactly "elapsed >= hard" when the search needs more time, '
               'exactly "elapsed >= soft" when early stop is disabled (fixed move time); statistics at most once a second' % (', MaxNPS throttling on' if nps else ''),
               unwind=2, timeout=300, param=nps, functions=F_O3, bounds=B_STOP + ('; MaxNPS 1..10^7' if nps else '; MaxNPS 0'), stubs=S_STOP),
            Ob('O3b-stop-nodes' + tag, ust, 'h_stop_nodes', 'shouldStop with a node limit%s: hard limit reached => true; (0,0) => true; node limit reached => true; a stop below the node limit needs a time limit (and the exact integer rule where no float is involved)' % (', MaxNPS throttling on' if nps else ''),
               unwind=2, timeout=300, param=nps, functions=F_O3, bounds=B_STOP + '; maxNodes 0..2^50' + ('; MaxNPS 1..10^7' if nps else '; MaxNPS 0'), stubs=S_STOP),
        ]
    obs += [
        Ob('O3c-install', ust, 'h_install', 'Search::timeLimit stores the limits unchanged, early-stop percentage = given if > 0 else MinTimeUsage, start time replaced only when given (links the O2 observation point to the O3 fields)',
           unwind=2, timeout=300, functions=['Search::timeLimit (search.cpp:82-88)'], bounds='all int arguments, all 64-bit start times', stubs=['minTimeUsage parameter object defined by the harness (compile-time constant 85)']),
        Ob('O3d-stop-soft', ust, 'h_stop_soft', 'shouldStop, normal search (no need-more-time, early stop enabled, no node limit): true => elapsed >= hard or elapsed+1 > soft*hardFactor (never before min(floor(soft*hardFactor), hard)); elapsed >= soft*hardFactor => true',
           unwind=2, timeout=600, backend='cvc5', functions=F_O3, bounds=B_STOP + '; hard <= 10^8; MaxNPS 0', stubs=S_STOP),
    ]
    obs += [Ob('O3e-polling', ust, 'h_polling', 'Search::setStrength: the number of nodes between two stop tests is 1000, or maxNPS/100 clamped to [1,1000] when a speed cap is set; strength clamped, cap stored',
               unwind=2, timeout=300, functions=['Search::setStrength (search.cpp:90-100)'], bounds='all int strength / maxNPS values, all seeds, any previous interval')]
    if thorough:
        # second back ends on the float-heavy queries (differential check of the SAT/SMT layer)
        obs += [Ob('O1a-clock/minisat', u, 'h_clock', D_CLOCK + ' [second back end]', unwind=2, timeout=1800, core=False, tiers=('thorough',), functions=F_CTL, bounds=B_GO, stubs=S_ENV),
                Ob('O1b-clock-sym/cadical', us, 'h_clock_sym', D_CLOCK + ' [symbolic constants, second back end]', unwind=2, timeout=1800, backend='cadical', core=False, tiers=('thorough',), functions=F_CTL, bounds=B_GO, stubs=S_ENV),
                Ob('O3d-stop-soft/kissat', ust, 'h_stop_soft', 'soft-limit rule, SAT back end (may stay undecided)', unwind=2, timeout=900, backend='kissat', core=False, tiers=('thorough',), functions=F_O3, bounds=B_STOP, stubs=S_STOP)]
    if True:   # literal reading kept as an obligation of its own: a recorded known finding (known_findings.txt), see DESIGN.md
        # the literal reading of the statement; violated on the unchanged tree in the window floor(9*clock/10) < BufferTime < clock-1 (see ASSUMPTIONS)
        obs.append(Ob('O1x-literal', u, 'h_clock_literal', 'literal budget: hard <= max(1, clock - BufferTime)', unwind=2, timeout=300, backend='kissat', core=False, functions=F_CTL, bounds=B_GO, stubs=S_ENV))
    return [u, us, uc, ust], obs
