from vlib.pipeline import Unit, Ob
from props.common import TRUSTED_BASE

LEVEL_TEXT = ('Bounded symbolic model checking (CBMC) of the real Position code. makeMove/unMakeMove are decided as ONE inductive step from a fully symbolic '
              'state (all 64 squares, all piece sets, keys, sums, counters symbolic; the representation invariant is assumed only on the squares the move can '
              'touch): frame + local invariant + exact deltas of every running sum + rules of chess + invariant preservation + bit-identical undo. By induction '
              'over histories of any length this gives "every incrementally maintained attribute equals its from-scratch value" without enumerating histories. '
              'Signed-overflow checks on the lowered MatId arithmetic decide "no undefined behaviour for any material legal play can produce". The board-only pair makeMoveB/unMakeMoveB, '
              'the single-square primitives, the from-scratch hash, the compact serialisation round trip into a reused object and the en-passant fix-up of the FEN reader are separate obligations.')
ASSUMPTIONS = ['moves of pseudo-legal *shape* (piece geometry over-approximated for non-pawn, non-castling moves: a superset of what any generator emits; make/unmake do not depend on slider geometry)',
               'material counts: one king each, <= 8 pawns per side, promoted pieces <= missing pawns (everything legal play can produce)',
               'pieceValue[] symbolic in [0,20000]; half-move clock <= 100000, full-move counter <= 1000000',
               'pieceTypeBB_[EMPTY] is excluded from the invariant and from state equality: the engine neither maintains nor reads it',
               'NN evaluator not connected (nnEval == nullptr); FEN text write/read is outside (std::string code)',
               'serialisation: halfMoveClock <= 255 and fullMoveCounter <= 65535 (the format truncates larger values by design)']

F = ['Position::makeMove (position.cpp:231-298)', 'Position::unMakeMove (301-344)', 'Position::setPiece/clearPiece/movePieceNotPawn (119-213, 378-400)',
     'Position::setEpSquare/setCastleMask/setWhiteMove (position.hpp)', 'MatId::addPiece/removePiece (material.hpp)', 'Position::castleSqMask, psHashKeys, castleHashKeys, epHashKeys (dumped real tables)', 'BitBoard::epMaskW/epMaskB']

def build(tier):
    u = Unit('pos', 'C02/pos.cpp', ['h_matid', 'h_step', 'h_undo', 'h_undoB', 'h_undoSEE', 'h_setpiece', 'h_edits', 'h_scratchhash', 'h_serialize'],
             allow_extern=[r'_ZN11NNEvaluator.*'])   # behind if(nnEval): nnEval is concretely nullptr in every harness
    kinds = ['white piece', 'white king (incl. castling)', 'white pawn (push, double push, capture, en passant, promotion)',
             'black piece', 'black king (incl. castling)', 'black pawn (push, double push, capture, en passant, promotion)']
    obs = [Ob('O2-matid', u, 'h_matid', 'MatId::addPiece/removePiece: no signed overflow and exact id arithmetic for every legal material; mirror swaps halves',
              unwind=14, functions=F[4:5], bounds='all piece-count vectors legal play can produce (up to 9 queens / 10 of a kind per side)', site='material.hpp:MatId::addPiece')]
    for k in range(6):
        obs.append(Ob('O1-undo@%d' % k, u, 'h_undo', 'makeMove then unMakeMove, mover = ' + kinds[k] + ': every field of the state (all 64 squares, 12 piece sets, keys, sums, counters, flags) is bit-identical to the pre-state',
                      unwind=65, param=k, timeout=1800, mem_gb=12, functions=F, backend='kissat', bounds='arbitrary state (64 symbolic squares, 12 symbolic piece sets, symbolic keys/sums/counters); any from/to/promotion of the shape class'))
        obs.append(Ob('O1-step@%d' % k, u, 'h_step', 'makeMove step, mover = ' + kinds[k] + ': frame, local invariant, key/sum deltas, rules, invariant preservation, undo record',
                      unwind=65, param=k, timeout=1800, mem_gb=12, functions=F, backend='kissat', bounds='arbitrary state (64 symbolic squares, 12 symbolic piece sets, symbolic keys/sums/counters); any from/to/promotion of the shape class'))
        obs.append(Ob('O1-undoB@%d' % k, u, 'h_undoB', 'makeMoveB then unMakeMoveB (the board-only pair MoveGen::isLegal runs on the live position), mover = ' + kinds[k] + ': board as after the move, side/rights/keys/material untouched, and the take-back restores a bit-identical state',
                      unwind=65, param=k, timeout=1800, mem_gb=12, functions=['Position::makeMoveB (position.cpp:347-390)', 'Position::unMakeMoveB (position.hpp:445-474)', 'setPieceB', 'movePieceNotPawnB'], backend='kissat',
                      bounds='arbitrary state (64 symbolic squares, 12 symbolic piece sets, symbolic keys/sums/counters); any from/to/promotion of the shape class'))
        obs.append(Ob('O1-undoSEE@%d' % k, u, 'h_undoSEE', 'makeSEEMove then unMakeSEEMove (the pair Search::SEE runs on the live position, also for quiet moves), mover = ' + kinds[k] + ': board as after the move without promotion/rook relocation, side flipped, rights/keys/material untouched, and the take-back restores a bit-identical state',
                      unwind=65, param=k, timeout=1800, mem_gb=12, functions=['Position::makeSEEMove / unMakeSEEMove (position.hpp:523-557)', 'setSEEPiece'], backend='kissat',
                      bounds='arbitrary state (64 symbolic squares, 12 symbolic piece sets, symbolic keys/sums/counters); any from/to of the shape class'))
    names = ['setPiece', 'clearPiece', 'movePieceNotPawn']
    for k in range(3):
        obs.append(Ob('O3-%s' % names[k], u, 'h_setpiece', names[k] + ' from an arbitrary state: frame, local invariant, key/sum deltas', unwind=65, param=k, timeout=900,
                      functions=F[2:3] + F[4:6], bounds='arbitrary state; any square(s); any new piece code 0..12'))
    obs += [
        Ob('O4-edits', u, 'h_edits', 'setWhiteMove/setCastleMask/setEpSquare move the hash by exactly the right keys and reverting them restores the state (null-move style edits)',
           unwind=65, functions=F[3:4], bounds='arbitrary state; any target values'),
    ]
    # quick: four of the 16 square groups (one per board quarter, together touching every rank pair); thorough: all 16, i.e. every (piece, square) pair
    for g in ((0, 5, 10, 15) if tier == 'quick' else range(16)):
        obs.append(Ob('O5-scratchhash@g%d' % g, u, 'h_scratchhash', 'computeZobristHash = XOR of piece-square, side, castle, ep-file keys; pawn key and material signature likewise (so positions equal under the repetition rule have equal keys); men on squares %d..%d' % (4 * g, 4 * g + 3),
           unwind=65, param=g, timeout=900, backend='kissat', functions=['Position::computeZobristHash (position.cpp:512-529)'], bounds='any piece code 0..12 on each of the four squares of the group, rest of the board empty; any side/castling/ep; the 16 groups cover every (piece, square) pair'))
        obs.append(Ob('O6-serialize@g%d' % g, u, 'h_serialize', 'deSerialize(serialize(p)) restores board, flags, counters and recomputes every derived field to its from-scratch value; men on squares %d..%d' % (4 * g, 4 * g + 3),
           unwind=65, param=g, timeout=900, backend='kissat', functions=['Position::serialize/deSerialize (position.cpp:420-499)'], bounds='any piece code 0..12 on each of the four squares of the group, rest empty; halfMoveClock <= 255, fullMoveCounter <= 65535; the 16 groups cover every (piece, square) pair'))
    # ---- O7: the FEN reader's en-passant fix-up ("positions equal under the rules have equal keys": a phantom ep square changes the key).  Same harness and
    # obligations as C01-O4a (real TextIO::fixupEPSquare vs the list-of-men oracle, on the contract of the legal move list).
    import copy
    from props import C01
    units1, obs1 = C01.build(tier)
    extra = []
    for o in obs1:
        if o.oid.startswith('O4a-fixupEP'):
            o2 = copy.copy(o); o2.oid = 'O7' + o.oid[2:]
            obs.append(o2)
            if o.unit not in extra: extra.append(o.unit)
    # ---- O8: the FEN reader's field scanner and en-passant pre-validation on fixed placements with arbitrary tails (C17-O2b re-run under this property: "FEN ... read back is identical")
    from props import C17
    units17, obs17 = C17.build(tier)
    for o in obs17:
        if o.oid.startswith('O2b-fen-tail'):
            o2 = copy.copy(o); o2.oid = 'O8' + o.oid[3:]
            obs.append(o2)
            if o.unit not in extra: extra.append(o.unit)
    return [u] + extra, obs
