TRUSTED_BASE = [
    'clang-14 front end and opt-14 -O1 (IR is produced at -O0 and optimised with vectorisation/unrolling off)',
    'tools/ir2c.cpp (IR->C translator; validated on every run by executing the generated C and the g++ build of the same harness on the witness and random input vectors and comparing digests)',
    'CBMC 6.11.0 with its default SAT back end (minisat) unless an obligation names another',
    'native dump of run-time initialised tables (static constructors executed natively; their content is then verified by solver queries where a property depends on it)',
    'hand-written oracles inside the harness files (stated per obligation)',
]
