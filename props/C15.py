from vlib.pipeline import Unit, Ob
from props.common import TRUSTED_BASE

LEVEL_TEXT = ('Bounded symbolic model checking (CBMC) of the real reverse move generator on symbolic K-man positions: for every accepted position P and every legal move m (independent list-of-men '
              'oracle), with Q the position after m: the raw un-move list of Q contains m exactly once, the static rejection test knownInvalid never rejects the true predecessor, unMakeMove with the '
              'true undo information rebuilds P exactly, every raw un-move is the reverse of some move, and the undo-information choices genMoves tries for m (captured piece, castling rights, en-passant '
              'file: its five lambdas, called directly) include those of P and offer nothing that does not fit P; the real en-passant fix-up is checked against the specification the other obligations use. '
              'The loop nest of genMoves that combines these choices and the full converse direction (every listed un-move restores a position in which the move is legal) are outside the claim.')
ASSUMPTIONS = ['positions with two kings + up to NMEN-2 further men (quick: 3 men, thorough: 4 men), accepted by the FEN reader, en-passant square already fixed up (as the tool keeps it)',
               'in O1 TextIO::fixupEPSquare is replaced by its specification (ep square kept iff a legal en-passant capture exists, decided by the oracle); O5 checks the real function against that specification on the contract of the legal move list (C01 O2/O3)',
               'RevMoveGen::addMovesByMask replaced by a recording model (the real helper is a loop of MoveList::addMove over the mask bits, same shape as C01 O2-expand)',
               'slider/bit kernels replaced by the models proved in C01-O1 (lemmas re-run here)']
SUBST = {'_ZN8BitBoard11rookAttacksE6Squarem': 'model_rookAttacks', '_ZN8BitBoard13bishopAttacksE6Squarem': 'model_bishopAttacks', '_ZN7BitUtil8firstBitEm': 'model_firstBit', '_ZN7BitUtil7lastBitEm': 'model_lastBit',
         '_ZN7BitUtil8bitCountEm': 'model_bitCount',
         '_ZN10RevMoveGen14addMovesByMaskER8MoveListm6Squarei': 'model_revAddMovesByMask', '_ZN6TextIO13fixupEPSquareER8Position': 'model_fixupEPSquare'}
KINDS = {0: 'any kind', 2: 'queen', 3: 'rook', 4: 'bishop', 5: 'knight', 6: 'pawn'}

def build(tier):
    ut = Unit('tables', 'C01/tables.cpp', ['h_rook', 'h_bishop', 'h_bits', 'h_bitcount'])
    units = [ut]; obs = []
    for r in range(8):
        obs.append(Ob('L-rook@rank%d' % (r + 1), ut, 'h_rook', 'lemma: rookAttacks == ray walk (rank %d origins, all occupancies)' % (r + 1), unwind=9, param=r, timeout=900, functions=['BitBoard::rookAttacks'], bounds='8 squares x 2^64 occupancies'))
        obs.append(Ob('L-bishop@rank%d' % (r + 1), ut, 'h_bishop', 'lemma: bishopAttacks == ray walk (rank %d origins, all occupancies)' % (r + 1), unwind=9, param=r, timeout=900, functions=['BitBoard::bishopAttacks'], bounds='8 squares x 2^64 occupancies'))
    obs.append(Ob('L-bits', ut, 'h_bits', 'lemma: firstBit/lastBit == ctz/clz', unwind=3, timeout=900, functions=['BitUtil::firstBit/lastBit'], bounds='all non-zero masks'))
    obs.append(Ob('L-bitcount', ut, 'h_bitcount', 'lemma: bitCount == popcount', unwind=65, timeout=1800, backend='kissat', functions=['BitUtil::bitCount'], bounds='all masks'))
    for K in ([3] if tier == 'quick' else [3, 4]):
        defs = {'NMEN': K}
        if K > 3: defs['ALLPRESENT'] = None
        u = Unit('rev%d' % K, 'C15/rev.cpp', ['h_contains', 'h_notinvalid', 'h_rawsound'], defines=defs, aliases=SUBST, lemmas=['L-rook', 'L-bishop', 'L-bits', 'L-bitcount'],
                 allow_extern=[r'_ZN11NNEvaluator.*', r'_ZNSt.*', r'_ZNKSt.*', r'_ZSt.*', r'_ZN7MoveGen16pseudoLegalMoves.*', r'_ZN7MoveGen13removeIllegal.*', r'_ZN6TextIO(?!13fixupEPSquare).*', r'_Z.*ChessParseError.*', r'__cxa_\w+', r'_ZT[VI].*', r'_Z7num2Str.*', r'_Z9splitLines.*'])
        units.append(u)
        cases = []
        for j in (0, 1):
            for cls, nm in ((0, 'ordinary king steps'), (1, 'castling moves')):
                cases.append((j + K * 2 * cls, '%s king, %s' % ('white' if j == 0 else 'black', nm)))
        for col in (0, 1):
            for cls in ((0,) if K == 3 else (2, 3, 4, 5, 6)):
                cases.append((2 + K * (col + 2 * cls), 'extra man (%s, %s) moves' % ('white' if col else 'black', KINDS[cls])))
        # quick-tier budget: knownInvalid on ordinary king steps / an extra man of any kind costs 750-900 s per case; (splitting by the kind of the extra man does not
        # make it cheaper); the quick tier runs the castling cases, the thorough tier everything
        slowNI = set(p for p, _ in cases if K == 3 and p not in (K * 2, K * 2 + 1))
        for par, who in cases:
            obs.append(Ob('O2-contains-K%d@%d' % (K, par), u, 'h_contains', '%d-man positions, %s: the raw un-move list of the successor contains the played move, once' % (K, who), unwind=65, param=par, core=(K == 3),
                          unwind_fn={r'_ZN10RevMoveGen18genMovesNoUndoInfoERK8PositionR8MoveList': K + 1}, timeout=1800 if K == 3 else 5400, mem_gb=12, backend='kissat',
                          functions=['RevMoveGen::genMovesNoUndoInfo (revmovegen.cpp:209-300)', 'RevMoveGen::sqAttacked', 'Position::makeMove'], stubs=['RevMoveGen::addMovesByMask -> recording model', 'kernel models (lemmas L-*)'],
                          bounds='two kings + %d further men; every legal move of the chosen mover (oracle); successor without en-passant square (with one, genMoves takes the double-push shortcut)' % (K - 2)))
            obs.append(Ob('O1-notinvalid-K%d@%d' % (K, par), u, 'h_notinvalid', '%d-man positions, %s: knownInvalid(successor, move, true undo info) is false and the predecessor is rebuilt exactly' % (K, who), unwind=65, param=par, core=(K == 3),
                          tiers=('thorough',) if par in slowNI else ('quick', 'thorough'), ram_gb=5.5 if K == 3 else 8, timeout=1800 if K == 3 else 5400, mem_gb=12, backend='kissat',
                          functions=['RevMoveGen::knownInvalid (revmovegen.cpp:339-363)', 'pieceCountsValid (302-337)', 'Position::Position(const Position&)', 'Position::unMakeMove/makeMove', 'MoveGen::canTakeKing'],
                          stubs=['TextIO::fixupEPSquare -> specification stub bound to the oracle', 'kernel models (lemmas L-*)'],
                          bounds='two kings + %d further men; every legal move of the chosen mover incl. castling, en passant, promotions, captures' % (K - 2)))
        for w in (0, 1):
            obs.append(Ob('O3-rawsound-K%d@%d' % (K, w), u, 'h_rawsound', '%d-man positions, %s to move: every raw un-move is the reverse of some move (target square empty, right colour, geometry of the piece kind, un-castling and un-promotion conditions)' % (K, 'white' if w else 'black'),
                          unwind=65, param=w, core=(K == 3), unwind_fn={r'_ZN10RevMoveGen18genMovesNoUndoInfoERK8PositionR8MoveList': K + 1}, timeout=1800 if K == 3 else 5400, mem_gb=12, backend='kissat',
                          functions=['RevMoveGen::genMovesNoUndoInfo'], stubs=['RevMoveGen::addMovesByMask -> recording model', 'kernel models (lemmas L-*)'],
                          bounds='two kings + %d further men of any kind; position without en-passant square; un-move (from, record) universally quantified' % (K - 2)))
    # ---- O4: undo-information choices in genMoves: the real lambdas (internal symbols discovered in the IR, called through asm labels)
    GM = r'_ZZN10RevMoveGen8genMovesERK8PositionRSt6vectorI6UnMoveSaIS4_EEbENK3\$_\d+cl'
    DISC = {'LAM_VALIDCAP': r'define internal [^@\n]*\bi1 @"(' + GM + r'ES2_RK4Moveii)"', 'LAM_BASE': r'define internal [^@\n]*\bi32 @"(' + GM + r'ES2_RK4Movei)"',
            'LAM_ADD': r'define internal [^@\n]*\bi32 @"(' + GM + r'ES2_RK4Moveii)"', 'LAM_EPMASK': r'define internal [^@\n]*\bi32 @"(' + GM + r'ES2_RK4Moveiib)"'}
    for K in ([3] if tier == 'quick' else [3, 4]):
        defs = {'NMEN': K, 'LAMBDAS': None}
        if K > 3: defs['ALLPRESENT'] = None
        ue = Unit('revlam%d' % K, 'C15/rev.cpp', ['h_undoinfo'], defines=defs, aliases=SUBST, lemmas=['L-rook', 'L-bishop', 'L-bits', 'L-bitcount'], discover=DISC,
                  allow_extern=[r'_ZN11NNEvaluator.*', r'_ZNSt.*', r'_ZNKSt.*', r'_ZSt.*', r'_ZN7MoveGen16pseudoLegalMoves.*', r'_ZN7MoveGen13removeIllegal.*', r'_ZN6TextIO.*', r'_Z.*ChessParseError.*', r'__cxa_\w+', r'_ZT[VI].*', r'_Z7num2Str.*', r'_Z9splitLines.*'])
        units.append(ue)
        cases = []
        for j in (0, 1):
            for cls, nm in ((0, 'ordinary king steps'), (1, 'castling moves')):
                cases.append((j + K * 2 * cls, '%s king, %s' % ('white' if j == 0 else 'black', nm)))
        for col in (0, 1):
            for cls in ((0,) if K == 3 else (2, 3, 4, 5, 6)):
                cases.append((2 + K * (col + 2 * cls), 'extra man (%s, %s) moves' % ('white' if col else 'black', KINDS[cls])))
        for par, who in cases:
            obs.append(Ob('O4-undoinfo-K%d@%d' % (K, par), ue, 'h_undoinfo', '%d-man positions, %s: the undo-information choices genMoves tries for the played move include the captured piece, castling rights and en-passant square of the true predecessor, and offer only rights/files that fit it' % (K, who),
                          unwind=65, param=par, core=(K == 3), timeout=1800 if K == 3 else 5400, mem_gb=12, backend='kissat',
                          unwind_fn={r'.*genMoves.*ENK3__\d+clES2_RK4Moveiib\.0': 65, r'.*genMoves.*ENK3__\d+clES2_RK4Moveiib': 9, r'.*genMoves.*ENK3__\d+clES2_RK4Moveii': 7},   # board copy 64; <= 8 files; 6 home squares
                          functions=['RevMoveGen::genMoves lambdas (revmovegen.cpp:40-168): validCapturePiece, getBaseCastleMask, getCastleAddMask, mustBeEpCapture, getEpMask'],
                          stubs=['kernel models (lemmas L-*)', 'the 7 x 2^k x 9 loop nest of genMoves that combines the choices and filters them through knownInvalid (O1) is not executed'],
                          bounds='two kings + %d further men; every legal move of the chosen mover incl. castling, en passant, promotions, captures; includeAllEpSquares both values' % (K - 2),
                          assumptions=['the predecessor is reachable by play in one respect beyond FEN acceptance: the origin square of the double push behind its en-passant square is empty']))
    # ---- O5: the real TextIO::fixupEPSquare scan that O1 replaces by its specification (same harness and obligations as C01-O4a)
    import copy
    from props import C01
    units1, obs1 = C01.build(tier)
    for o in obs1:
        if o.oid.startswith('O4a-fixupEP'):
            o2 = copy.copy(o); o2.oid = 'O5' + o.oid[3:]
            if o.unit not in units: units.append(o.unit)
            obs.append(o2)
    return units, obs
