from vlib.pipeline import Unit, Ob
from props.common import TRUSTED_BASE

LEVEL_TEXT = ('Bounded symbolic model checking (CBMC) of the real move-generation code, layered: (O1) every geometry table and bit utility against first-principles '
              'definitions for all squares and all 2^64 occupancies; (O3) per-move verdicts isLegal / removeIllegal / givesCheck / inCheck against a mailbox oracle on '
              'symbolic K-man positions; (O2) per-piece generator output against a ray-walk oracle; (O4a) the en-passant fix-up of the FEN reader on the contract of the legal move list; thorough: the same on 4 men and the '
              'en-passant capture family on 5 men. Each layer is a solver verdict over all values inside its bounds.')
ASSUMPTIONS = ['build variant without USE_BMI2/USE_CTZ/USE_POPCNT (the baseline build)', 'FEN text parsing is outside']

def build(tier):
    ut = Unit('tables', 'C01/tables.cpp', ['h_rook', 'h_bishop', 'h_leapers', 'h_between', 'h_bits', 'h_bitcount'])
    obs = []
    for r in range(8):
        obs.append(Ob('O1-rook@rank%d' % (r + 1), ut, 'h_rook', 'rookAttacks(sq, occ) == ray walk for the 8 squares of rank %d and all 2^64 occupancies' % (r + 1), unwind=9, param=r, timeout=900,
                      functions=['BitBoard::rookAttacks', 'rTables/rMasks/rMagics/rBits (dumped)'], bounds='8 origin squares x every 64-bit occupancy'))
        obs.append(Ob('O1-bishop@rank%d' % (r + 1), ut, 'h_bishop', 'bishopAttacks(sq, occ) == ray walk for the 8 squares of rank %d and all 2^64 occupancies' % (r + 1), unwind=9, param=r, timeout=900,
                      functions=['BitBoard::bishopAttacks', 'bTables/bMasks/bMagics/bBits (dumped)'], bounds='8 origin squares x every 64-bit occupancy'))
    obs += [
        Ob('O1-leapers', ut, 'h_leapers', 'king/knight/pawn attack tables, epMaskW/B and the set-wise pawn attack shifts equal their arithmetic definitions', unwind=65,
           functions=['BitBoard::kingAttacks/knightAttacks/wPawnAttacks/bPawnAttacks', 'epMaskW/epMaskB', 'wPawnAttacksMask/bPawnAttacksMask'], bounds='all 64 squares; all 2^64 pawn sets'),
        Ob('O1-between-direction', ut, 'h_between', 'squaresBetween(a,b), getDirection(a,b) (incl. the offset arithmetic into dirTable) and getKingDistance equal their definitions', unwind=9,
           functions=['BitBoard::squaresBetween', 'BitBoard::getDirection', 'dirTable', 'BitBoard::getKingDistance'], bounds='all 64x64 square pairs'),
        Ob('O1-bits', ut, 'h_bits', 'firstBit/lastBit/extractBit (De Bruijn multiply + table) and mirrorX/mirrorY for all 64-bit masks', unwind=3, timeout=900,
           functions=['BitUtil::firstBit/lastBit/extractBit', 'BitBoard::mirrorX/mirrorY'], bounds='all non-zero 64-bit masks'),
        Ob('O1-bitcount', ut, 'h_bitcount', 'bitCount (SWAR multiply) = population count for all 64-bit masks', unwind=65, timeout=1500, core=False,
           functions=['BitUtil::bitCount'], bounds='all 64-bit masks'),
    ]
    units = [ut]
    # proved substitutions (lemmas O1-rook/O1-bishop/O1-bits of this same run)
    SUBST = {'_ZN8BitBoard11rookAttacksE6Squarem': 'model_rookAttacks', '_ZN8BitBoard13bishopAttacksE6Squarem': 'model_bishopAttacks',
             '_ZN7BitUtil8firstBitEm': 'model_firstBit', '_ZN7BitUtil7lastBitEm': 'model_lastBit'}
    NP = '_ZN7MoveGen9nextPieceERK8Position6Squarei.0'
    NPS = '_ZN7MoveGen13nextPieceSafeERK8Position6Squarei.0'
    VF = ['MoveGen::inCheck/sqAttacked/canTakeKing (moveGen.hpp)', 'MoveGen::isLegal (moveGen.cpp:621-659)', 'MoveGen::removeIllegal (574-618)', 'MoveGen::givesCheck (458-571)',
          'Position::makeMove/unMakeMove/makeMoveB/unMakeMoveB', 'BitBoard::rookAttacks/bishopAttacks/knightAttacks/kingAttacks/getDirection/squaresBetween (real tables)']
    KINDS = {0: 'any kind', 2: 'queen', 3: 'rook', 4: 'bishop', 5: 'knight', 6: 'pawn'}
    ks = [3] if tier == 'quick' else [3, 4]
    for K in ks:
        defs = {'NMEN': K}
        if K > 3: defs['ALLPRESENT'] = None
        uv = Unit('verdicts%d' % K, 'C01/verdicts.cpp', ['h_attacks', 'h_islegal', 'h_removeillegal', 'h_givescheck'], defines=defs, allow_extern=[r'_ZN11NNEvaluator.*'],
                  aliases=SUBST, lemmas=['O1-rook', 'O1-bishop', 'O1-bits'])
        units.append(uv)
        cases = []   # (param, description)
        for j in (0, 1):
            for cls, nm in ((0, 'ordinary king steps'), (1, 'castling moves')):
                cases.append((j + K * 2 * cls, '%s king, %s' % ('white' if j == 0 else 'black', nm)))
        for j in range(2, K):
            if j > 2: continue     # the extra men are interchangeable: the mover is man 2
            for col in (0, 1):
                for cls in ((0,) if K == 3 else (2, 3, 4, 5, 6)):
                    cases.append((j + K * (col + 2 * cls), 'extra man (%s, %s) moves' % ('white' if col else 'black', KINDS[cls])))
        for par, who in cases:
            for ent, what in (('h_attacks', 'inCheck/sqAttacked/canTakeKing == oracle'), ('h_islegal', 'isLegal == oracle legality for every pseudo-legal move of the mover; board restored'),
                              ('h_removeillegal', 'removeIllegal keeps the singleton pseudo-legal move iff it is legal; board restored'), ('h_givescheck', 'givesCheck == oracle for every legal move of the mover')):
                if ent == 'h_attacks' and par > 1: continue
                # quick-tier budget (about 10 minutes on 16 cores): removeIllegal on ordinary king / extra-man moves costs 600-900 s per case and runs in the thorough tier only
                slow = ent == 'h_removeillegal' and K == 3 and par in (0, 1, 2, K + 2)
                obs.append(Ob('O3-%s-K%d@%d' % (ent[2:], K, par), uv, ent, '%d-man positions, %s: %s' % (K, who, what), unwind=65, unwindset='%s:9,%s:9' % (NP, NPS), param=par,
                              core=(K == 3), tiers=('thorough',) if slow else ('quick', 'thorough'), timeout=1800 if K == 3 else 5400, mem_gb=12, functions=VF, backend='kissat',
                              stubs=['rookAttacks/bishopAttacks -> 7-step ray fill, firstBit/lastBit -> ctz/clz (proved equal for all arguments by O1-rook/O1-bishop/O1-bits)'],
                              bounds=('two kings + %d further men of any kind on any squares (%s), any side to move/castling rights/en-passant square accepted by the FEN reader; every (to, promotion) for the chosen mover'
                                      % (K - 2, 'men may be absent' if K == 3 else 'all present; fewer men are covered by K=3')),
                              assumptions=['position domain = FEN-reader acceptance: one king each, no pawn on ranks 1/8, castling right => king and rook at home, ep square => right rank, empty, double-pushed pawn in front; side not to move not in check',
                                           'moves offered to isLegal/removeIllegal are pseudo-legal in the generators\' sense (castling only when not in check and not through check)']))
    # ---- O3-ep: the en-passant family on 5 men (own king + capturing pawn, enemy king + pushed pawn + one more enemy man): pins through the vanishing pawn
    uep = Unit('verdicts5ep', 'C01/verdicts.cpp', ['h_islegal', 'h_removeillegal', 'h_givescheck'], defines={'NMEN': 5, 'EPONLY': None}, allow_extern=[r'_ZN11NNEvaluator.*'],
               aliases=SUBST, lemmas=['O1-rook', 'O1-bishop', 'O1-bits'])
    units.append(uep)
    for col in (0, 1):
        par = 2 + 5 * (col + 2 * 6)
        for ent, what in (('h_islegal', 'isLegal'), ('h_removeillegal', 'removeIllegal'), ('h_givescheck', 'givesCheck')):
            obs.append(Ob('O3-ep-%s-K5@%d' % (ent[2:], col), uep, ent, '5-man positions, %s pawn captures en passant: %s == oracle (incl. rank and diagonal pins through the captured pawn)' % ('white' if col else 'black', what),
                          unwind=65, unwindset='%s:9,%s:9' % (NP, NPS), param=par, core=False, tiers=('thorough',), timeout=3600, mem_gb=16, backend='kissat', functions=VF,
                          stubs=['kernel models (lemmas O1-*)'], bounds='two kings + the capturing pawn + up to 2 further men of any kind (one of them is the pushed pawn); every en-passant capture',
                          assumptions=['position domain = FEN-reader acceptance']))
    # ---- O2: generators (helpers recorded) + expansion lemmas
    GEN = ['pseudoLegalMoves (exact set, each move once)', 'checkEvasions (no legal evasion omitted; listed moves pseudo-legal; no duplicates)',
           'pseudoLegalCaptures (no legal capture / queen-knight promotion omitted)', 'pseudoLegalCapturesAndChecks (no legal capture, queen-knight promotion or checking move omitted)']
    REC = {'_ZN7MoveGen14addMovesByMaskER8MoveList6Squarem': 'model_addMovesByMask', '_ZN7MoveGen18addPawnMovesByMaskILb1EEEvR8MoveListmib': 'model_addPawnMovesByMaskW',
           '_ZN7MoveGen18addPawnMovesByMaskILb0EEEvR8MoveListmib': 'model_addPawnMovesByMaskB', '_ZN7MoveGen24addPawnDoubleMovesByMaskER8MoveListmi': 'model_addPawnDoubleMovesByMask'}
    ue = Unit('expand', 'C01/expand.cpp', ['h_expand'], allow_extern=[r'_ZN11NNEvaluator.*'])
    units.append(ue)
    for k, nm in enumerate(['addMovesByMask', 'addPawnMovesByMask<white>', 'addPawnMovesByMask<black>', 'addPawnDoubleMovesByMask']):
        for j, fill in enumerate((0, 5, 200)):
            if tier == 'quick' and fill != 5: continue      # quick: one list fill; thorough: empty, short and nearly full lists
            obs.append(Ob('O2-expand@%d' % (k + 4 * j), ue, 'h_expand', nm + ' on a list already holding %d moves: an arbitrary destination mask is expanded into exactly the moves it stands for (promotions x4 or x2), appended once each, older entries untouched' % fill,
                          unwind=65, param=k + 4 * j, timeout=1800, mem_gb=12, backend='kissat', functions=['MoveGen::' + nm, 'MoveList::addMove'],
                          unwind_fn={r'_ZN7MoveGen14addMovesByMaskER8MoveList6Squarem': 30, r'_ZN7MoveGen18addPawnMovesByMaskILb[01]EEEvR8MoveListmib': 10, r'_ZN7MoveGen24addPawnDoubleMovesByMaskER8MoveListmi': 10},   # mask population is bounded by the harness (<= 28 / <= 8)
                          bounds='list fill %d; any mask with <= 28 (pieces) / <= 8 (pawn direction) bits on the rows the generators can pass, any delta of the direction class' % fill))
    for K in ([3] if tier == 'quick' else [3, 4]):
        defs = {'NMEN': K}
        if K > 3: defs['ALLPRESENT'] = None
        al = dict(SUBST); al.update(REC)
        ug = Unit('gen%d' % K, 'C01/gen.cpp', ['h_gen'], defines=defs, allow_extern=[r'_ZN11NNEvaluator.*'], aliases=al, lemmas=['O1-rook', 'O1-bishop', 'O1-bits', 'O2-expand'])
        units.append(ug)
        for par in range(8):
            obs.append(Ob('O2-gen-K%d@%d' % (K, par), ug, 'h_gen', '%d-man positions, %s to move: %s' % (K, 'white' if par & 4 else 'black', GEN[par & 3]), unwind=65, param=par,
                          unwind_fn={r'_ZN7MoveGen(16pseudoLegalMoves|13checkEvasions|19pseudoLegalCaptures|28pseudoLegalCapturesAndChecks)ILb[01]EEEvRK8PositionR8MoveList': K},   # per-kind piece loops: <= K-2 pieces

                          core=(K == 3), timeout=1800 if K == 3 else 5400, mem_gb=12, backend='kissat', functions=['MoveGen::' + GEN[par & 3].split(' ')[0] + '<wtm> (moveGen.cpp:48-456)', 'MoveGen::sqAttacked'],
                          stubs=['addMovesByMask/addPawnMovesByMask/addPawnDoubleMovesByMask -> recording models (justified by O2-expand)', 'slider/bit kernels -> models (justified by O1 lemmas)'],
                          bounds='two kings + %d further men of any kind and colour on any squares, castling rights / en-passant square as accepted by the FEN reader; candidate move (from,to,promotion) universally quantified' % (K - 2),
                          assumptions=['checkEvasions is only asked when the side to move is in check', 'under-promotions to rook/bishop are outside the class of the two capture generators (they emit queen and knight promotions only, by design)']))
    # ---- O4a: fixupEPSquare's own scan on the contract of the legal move list (quick + thorough, 4 men)
    # (no slider/bit kernel is reachable from the real code of this unit - the generators are replaced by their contract - so it needs no kernel substitution and no lemma)
    SUBF = {'_ZN7MoveGen16pseudoLegalMovesERK8PositionR8MoveList': 'model_legalList', '_ZN7MoveGen13removeIllegalER8PositionR8MoveList': 'model_removeIllegalNop'}
    ufa = Unit('fixupabs4', 'C01/fixup.cpp', ['h_fixup'], defines={'NMEN': 4, 'ABSLIST': None}, aliases=SUBF,
               allow_extern=[r'_ZN11NNEvaluator.*', r'_ZNSt.*', r'_ZNKSt.*', r'_ZSt.*', r'_ZN6TextIO(?!13fixupEPSquare).*', r'_Z.*ChessParseError.*', r'__cxa_\w+', r'_ZT[VI].*', r'_Z7num2Str.*', r'_Z9splitLines.*', r'_ZN7MoveGen.*'])
    units.append(ufa)
    for w in (0, 1):
        obs.append(Ob('O4a-fixupEP-scan-K4@%d' % w, ufa, 'h_fixup', 'positions of up to 4 men with an en-passant square, %s to move: TextIO::fixupEPSquare keeps the square iff a pawn can legally capture en passant (its scan of the legal move list: destination and moving-piece test); nothing else changes; hash follows' % ('white' if w else 'black'),
                      unwind=65, param=w, core=True, timeout=1800, mem_gb=12, backend='kissat', unwind_fn={r'_ZN6TextIO13fixupEPSquareER8Position': 8},
                      functions=['TextIO::fixupEPSquare (textio.cpp:182-200)', 'Position::setEpSquare'],
                      stubs=['pseudoLegalMoves + removeIllegal -> their contract (C01 O2/O3: exactly the legal moves), in the form the scan can observe: every legal move onto the ep square (oracle, one candidate per man), interleaved arbitrarily with up to 2 entries that go elsewhere'],
                      bounds='two kings + up to 2 further men of any kind; any en-passant square the FEN reader accepts; legal-move list abstracted to the moves onto the ep square + up to 2 other entries in any interleaving (the scan ignores entries with another destination)'))
    # (the same check on the real, unabstracted move list - pseudoLegalMoves + removeIllegal writing a 256-entry MoveList inside fixupEPSquare - exhausts 16 GB in
    #  propositional reduction already at 3 men; the list contract used above is what O2-gen/O3-removeillegal establish)
    return units, obs
