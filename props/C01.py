from vlib.pipeline import Unit, Ob
from props.common import TRUSTED_BASE

LEVEL_TEXT = ('Bounded symbolic model checking (CBMC) of the real move-generation code, layered: (O1) every geometry table and bit utility against first-principles '
              'definitions for all squares and all 2^64 occupancies; (O3) per-move verdicts isLegal / removeIllegal / givesCheck / inCheck against a mailbox oracle on '
              'symbolic K-man positions; (O2) per-piece generator output against a ray-walk oracle. Each layer is a solver verdict over all values inside its bounds.')
ASSUMPTIONS = ['build variant without USE_BMI2/USE_CTZ/USE_POPCNT (the baseline build)', 'FEN text parsing is outside']

def build(tier):
    ut = Unit('tables', 'C01/tables.cpp', ['h_rook', 'h_bishop', 'h_leapers', 'h_between', 'h_bits', 'h_bitcount'])
    obs = []
    for r in range(8):
        obs.append(Ob('O1-rook@rank%d' % (r + 1), ut, 'h_rook', 'rookAttacks(sq, occ) == ray walk for the 8 squares of rank %d and all 2^64 occupancies' % (r + 1), unwind=9, param=r, timeout=900,
                      functions=['BitBoard::rookAttacks', 'rTables/rMasks/rMagics/rBits (dumped)'], bounds='8 origin squares x every 64-bit occupancy'))
        obs.append(Ob('O1-bishop@rank%d' % (r + 1), ut, 'h_bishop', 'bishopAttacks(sq, occ) == ray walk for the 8 squares of rank %d and all 2^64 occupancies' % (r + 1), unwind=9, param=r, timeout=900,
                      functions=['BitBoard::bishopAttacks', 'bTables/bMasks/bMagics/bBits (dumped)'], bounds='8 origin squares x every 64-bit occupancy'))
    obs += [
        Ob('O1-leapers', ut, 'h_leapers', 'king/knight/pawn attack tables, epMaskW/B and the set-wise pawn attack shifts equal their arithmetic definitions', unwind=65,
           functions=['BitBoard::kingAttacks/knightAttacks/wPawnAttacks/bPawnAttacks', 'epMaskW/epMaskB', 'wPawnAttacksMask/bPawnAttacksMask'], bounds='all 64 squares; all 2^64 pawn sets'),
        Ob('O1-between-direction', ut, 'h_between', 'squaresBetween(a,b), getDirection(a,b) (incl. the offset arithmetic into dirTable) and getKingDistance equal their definitions', unwind=9,
           functions=['BitBoard::squaresBetween', 'BitBoard::getDirection', 'dirTable', 'BitBoard::getKingDistance'], bounds='all 64x64 square pairs'),
        Ob('O1-bits', ut, 'h_bits', 'firstBit/lastBit/extractBit (De Bruijn multiply + table) and mirrorX/mirrorY for all 64-bit masks', unwind=3, timeout=900,
           functions=['BitUtil::firstBit/lastBit/extractBit', 'BitBoard::mirrorX/mirrorY'], bounds='all non-zero 64-bit masks'),
        Ob('O1-bitcount', ut, 'h_bitcount', 'bitCount (SWAR multiply) = population count for all 64-bit masks', unwind=65, timeout=1500, core=False,
           functions=['BitUtil::bitCount'], bounds='all 64-bit masks'),
    ]
    units = [ut]
    # proved substitutions (lemmas O1-rook/O1-bishop/O1-bits of this same run)
    SUBST = {'_ZN8BitBoard11rookAttacksE6Squarem': 'model_rookAttacks', '_ZN8BitBoard13bishopAttacksE6Squarem': 'model_bishopAttacks',
             '_ZN7BitUtil8firstBitEm': 'model_firstBit', '_ZN7BitUtil7lastBitEm': 'model_lastBit'}
    NP = '_ZN7MoveGen9nextPieceERK8Position6Squarei.0'
    NPS = '_ZN7MoveGen13nextPieceSafeERK8Position6Squarei.0'
    VF = ['MoveGen::inCheck/sqAttacked/canTakeKing (moveGen.hpp)', 'MoveGen::isLegal (moveGen.cpp:621-659)', 'MoveGen::removeIllegal (574-618)', 'MoveGen::givesCheck (458-571)',
          'Position::makeMove/unMakeMove/makeMoveB/unMakeMoveB', 'BitBoard::rookAttacks/bishopAttacks/knightAttacks/kingAttacks/getDirection/squaresBetween (real tables)']
    ks = [3] if tier == 'quick' else [3, 4]
    for K in ks:
        uv = Unit('verdicts%d' % K, 'C01/verdicts.cpp', ['h_attacks', 'h_islegal', 'h_removeillegal', 'h_givescheck'], defines={'NMEN': K}, allow_extern=[r'_ZN11NNEvaluator.*'], aliases=SUBST, lemmas=['O1-rook', 'O1-bishop', 'O1-bits'])
        units.append(uv)
        params = [0, 1] + [j + K * c for j in range(2, K) for c in (0, 1)]
        names = {0: 'white king moves', 1: 'black king moves'}
        for par in params:
            who = names.get(par, 'extra man %d (%s) moves' % (par % K, 'white' if (par // K) & 1 else 'black'))
            for ent, what in (('h_attacks', 'inCheck/sqAttacked/canTakeKing == oracle'), ('h_islegal', 'isLegal == oracle legality for every pseudo-legal move of the mover; board restored'),
                              ('h_removeillegal', 'removeIllegal keeps the singleton pseudo-legal move iff it is legal; board restored'), ('h_givescheck', 'givesCheck == oracle for every legal move of the mover')):
                if ent == 'h_attacks' and par > 1: continue
                obs.append(Ob('O3-%s-K%d@%d' % (ent[2:], K, par), uv, ent, '%d-man positions, %s: %s' % (K, who, what), unwind=65, unwindset='%s:9,%s:9' % (NP, NPS), param=par,
                              core=(K == 3), timeout=1800 if K == 3 else 3600, mem_gb=12, functions=VF, stubs=['rookAttacks/bishopAttacks -> 7-step ray fill, firstBit/lastBit -> ctz/clz (proved equal for all arguments by O1-rook/O1-bishop/O1-bits)'],
                              bounds='two kings + %d further men of any kind on any squares (men may be absent), any side to move/castling rights/en-passant square accepted by the FEN reader; every (to, promotion) for the chosen mover' % (K - 2),
                              assumptions=['position domain = FEN-reader acceptance: one king each, no pawn on ranks 1/8, castling right => king and rook at home, ep square => right rank, empty, double-pushed pawn in front; side not to move not in check',
                                           'moves offered to isLegal/removeIllegal are pseudo-legal in the generators\' sense (castling only when not in check and not through check)']))
    return units, obs
