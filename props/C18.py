from vlib.pipeline import Unit, Ob
from props.common import TRUSTED_BASE

LEVEL_TEXT = ('Bounded symbolic model checking (CBMC) of the real opening-book code lowered through clang IR. Polyglot move decoding/encoding and entry (de)serialisation are decided for all 2^16 codes, '
              'every board content and side to move; the polyglot key is decided against the reference sum for every 64-square board, castle mask, ep square and side (four 16-bit slices of the key). '
              'The legality guard and weighted choice of Book::getBookMove are decided with the book lookup, the move generator and the RNG replaced by stubs that return arbitrary data '
              '(<= 4 book entries, <= 6 legal moves, any RNG value); "every positively weighted entry can be chosen" is decided constructively (the RNG value that must select it is computed by the oracle). '
              'The binary search of Book::getBookEntries runs on a stubbed file (arbitrary bytes, read failures at any time) for bounded file sizes; the fstream calls themselves are environment. '
              'That the legal-move list really is the set of legal moves is property C01, not this one.')
ASSUMPTIONS = ['Position objects are built in place (squares[], whiteMove, castleMask, epSquare); the book code reads nothing else of a position',
               'getHashKey counts the ep file whenever the position has an ep square; Position::makeMove sets an ep square only when an enemy pawn stands next to the double-pushed pawn (position.cpp:254-267) and the FEN reader keeps it only when an ep capture is legal (TextIO::fixupEPSquare) - so the key carries the ep file at most when the polyglot format says so; for a pseudo-legal but illegal ep capture (pinned pawn) read from FEN, texel omits the ep file where the format would include it (book miss, never a wrong move)',
               'getBookMove: at most 4 book entries for the position and at most 6 legal moves (stub bounds); polyglot weights 0..65535; built-in counts 1..306 (the built-in book has 306 lines)',
               'UciParams::bookFile is a StringParam constructed as in parameters.cpp:47 whose value is "" (built-in book) or a short non-empty string (polyglot file); std::string copy/empty/c_str/destructor are modelled for strings inside the small-string buffer',
               'getBookEntries: file access (std::fstream constructor/seekg/tellg/read/operator!/destructor) is a stub: tellg returns any length in the stated range (-1 = missing file), every read returns arbitrary bytes or fails; at most 3 consecutive entries with the wanted key are collected (scan-loop bound)',
               'limits of the engine code beyond the claim: "(lo + hi) / 2" can overflow for more than 2^30 entries (16 GiB books); "int numEntries = fileLen / 16" truncates from 32 GiB. With > 32768 entries of weight 65535 under one key the int weight sum in getBookMove overflows']

GBE = '_ZNK4Book14getBookEntriesERK8PositionRSt6vectorINS_9BookEntryESaIS4_EE'
GETSTR = '_ZNK10Parameters11StringParam12getStringParB5cxx11Ev'   # reached through the vtable only: emitted as an extra root
STR_COPY = '_ZNSt7__cxx1112basic_stringIcSt11char_traitsIcESaIcEEC1ERKS4_'
STR_DTOR = '_ZNSt7__cxx1112basic_stringIcSt11char_traitsIcESaIcEED1Ev'
STR_CSTR = '_ZNKSt7__cxx1112basic_stringIcSt11char_traitsIcESaIcEE5c_strEv'
STR_EMPTY = '_ZNKSt7__cxx1112basic_stringIcSt11char_traitsIcESaIcEE5emptyEv'
STR = {STR_COPY: 'model_string_copy', STR_DTOR: 'model_string_dtor', STR_EMPTY: 'model_string_empty', STR_CSTR: 'model_string_cstr'}
STR_STUBS = ['std::string copy-ctor/dtor/empty/c_str (libstdc++ extern templates) -> small-string models', 'Random::Random() (time seeded) -> zero state']
GUARD_ALIASES = dict(STR, **{
    '_ZN4Book8initBookEv': 'model_initBook', GBE: 'model_getBookEntries',
    '_ZN7MoveGen16pseudoLegalMovesERK8PositionR8MoveList': 'model_pseudoLegalMoves',
    '_ZN7MoveGen13removeIllegalER8PositionR8MoveList': 'model_removeIllegal',
    '_ZN6Random7nextIntEi': 'model_nextInt', 'sqrt': 'model_sqrt'})
GUARD_STUBS = ['Book::initBook -> no-op', 'Book::getBookEntries -> arbitrary entries (moves with any squares and promotion code 0..12, any weight/count)',
               'MoveGen::pseudoLegalMoves + removeIllegal -> an arbitrary list of <= 6 moves with from != to', 'Random::nextInt -> any value in [0, modulo)'] + STR_STUBS
SEARCH_ALIASES = dict(STR, **{
    '_ZNSt13basic_fstreamIcSt11char_traitsIcEEC1EPKcSt13_Ios_Openmode': 'model_fs_ctor',
    '_ZNSt13basic_fstreamIcSt11char_traitsIcEED1Ev': 'model_fs_dtor',
    '_ZNSi5seekgElSt12_Ios_Seekdir': 'model_seekg', '_ZNSi5tellgEv': 'model_tellg', '_ZNSi4readEPcl': 'model_read',
    '_ZNKSt9basic_iosIcSt11char_traitsIcEEntEv': 'model_ios_not',
    '_ZN12PolyglotBook10getHashKeyERK8Position': 'model_getHashKey'})
SEARCH_STUBS = ['std::fstream ctor/dtor, istream::seekg/tellg/read, basic_ios::operator! -> file model (any length, arbitrary bytes, failures); the stub keeps a ghost copy of the search interval and asserts each lemma before assuming it',
                'PolyglotBook::getHashKey -> any 64-bit key (O2 decides the real one)'] + STR_STUBS
FLAGS = ['-ffp-contract=off', '-fno-rtti']   # no fused multiply-add (x86-64 baseline, as the g++ build); no RTTI objects behind the vtable

def build(tier):
    up = Unit('polyglot', 'C18/pg.cpp', ['h_decode', 'h_roundtrip', 'h_serialize', 'h_key_direct', 'h_key_vectors'])
    ug = Unit('guard', 'C18/bk.cpp', ['h_guard_pg', 'h_weight'], aliases=GUARD_ALIASES, clang_flags=FLAGS, extra_roots=[GETSTR])
    ugb = Unit('guardb', 'C18/bk.cpp', ['h_guard_builtin'], aliases=dict(GUARD_ALIASES, **{'_ZN4Book9getWeightEib': 'model_getWeight'}), clang_flags=FLAGS, extra_roots=[GETSTR])
    us = Unit('search', 'C18/bk.cpp', ['h_search_any', 'h_search_sorted', 'h_search_walk'], aliases=SEARCH_ALIASES, clang_flags=FLAGS, extra_roots=[GETSTR])
    PG = ['PolyglotBook::getMove (polyglot.cpp:112-146)', 'PolyglotBook::getPGMove (72-110)', 'Position::getPiece/isWhiteMove', 'Move/Square accessors']
    obs = [
        Ob('O1a-decode', up, 'h_decode', 'getMove for every 16-bit code: squares in range and equal to the code fields, promotion piece none or N/B/R/Q of the side to move (codes 5-7 and bit 15 ignored), king-takes-rook rewritten to the castling move exactly when a white king stands on e1 / a black king on e8, no other rewriting',
           unwind=66, functions=PG[:1] + PG[2:], bounds='all 2^16 move codes x all 13^64 board contents x side to move (the rewrite tests the king on the from square, not the side to move: stated by the oracle)'),
        Ob('O1b-roundtrip', up, 'h_roundtrip', 'getMove(getPGMove(m)) == m and the code is to|from<<6|prom<<12 with castling stored as king-takes-rook, for every move of legal shape',
           unwind=66, functions=PG, bounds='any board; mover\'s own man on the from square; from != to; promotion none or N/B/R/Q of the mover and only for a pawn; a king moves one step or castles e1g1/e1c1/e8g8/e8c8',
           assumptions=['legal shape: a king standing on e1/e8 never moves straight to a1/h1 resp. a8/h8 (such a code means castling in the polyglot format)']),
        Ob('O1c-serialize', up, 'h_serialize', 'deSerialize reads big-endian key/move/weight from any 16 bytes; serialize writes them big-endian with a zero learn field; deSerialize(serialize(x)) == x',
           unwind=18, functions=['PolyglotBook::serialize (148-158)', 'PolyglotBook::deSerialize (160-171)'], bounds='all 2^128 entry contents; all (key, move, weight)'),
    ] + [
        Ob('O2a-key@bits%d-%d' % (16 * s, 16 * s + 15), up, 'h_key_direct', 'getHashKey == xor over all men of Random64[64*kind+8*row+file] xor castle randoms [768..771] (white short, white long, black short, black long) xor Random64[772+file] when the position has an ep square xor Random64[780] when white is to move',
           unwind=66, param=255 + 256 * s, backend='cadical', timeout=900, functions=['PolyglotBook::getHashKey (polyglot.cpp:30-70)', 'Position::getPiece/h1Castle/a1Castle/h8Castle/a8Castle/getEpSquare/isWhiteMove', 'AllSquares iterator'],
           bounds='every content (13 values) of all 64 squares, castle mask 0..15, ep square -1..63, side to move; key bits %d..%d compared in this query (the 64 bits are independent parity problems)' % (16 * s, 16 * s + 15)) for s in range(4)
    ] + [
        Ob('O2b-key-vectors', up, 'h_key_vectors', 'content of the Random64 table anchored by the published test keys of the polyglot format description (start position, after e4, e4 d5, e4 d5 e5 f5 [ep], ... Ke2 Kf7 [no castling], a4 b5 h4 b4 c4 [ep], ... bxc3 Ra3) and Random64[0], [780]; key(empty board, no flags) == 0',
           unwind=66, functions=['PolyglotBook::getHashKey', 'PolyglotBook::hashRandoms'], bounds='8 concrete positions (no symbolic input)'),
    ] + [
        Ob('O3a-guard-pg@%dentries' % n, ug, 'h_guard_pg', 'getBookMove, polyglot book: result is the empty move or a member of the legal list; any candidate outside the legal list, no candidate, or weight sum <= 0 => empty move and no RNG draw; otherwise one draw over the exact weight sum, the result is a candidate stored with positive weight, and every positively weighted candidate is returned for the RNG value equal to the weight sum of its predecessors',
           unwind=8, param=n, backend='cadical', functions=['Book::getBookMove (book.cpp:46-90)', 'Book::getWeight', 'Move::operator==', 'MoveList::operator[]', 'std::vector<BookEntry> iteration/destructor', 'Parameters::StringParam::getStringPar (virtual call)'],
           bounds='%d book entries (case split 0..4), <= 6 legal moves, weights 0..65535, any RNG value in range' % n, stubs=GUARD_STUBS) for n in range(5)
    ] + [
        Ob('O3b-guard-builtin@%dentries' % n, ugb, 'h_guard_builtin', 'getBookMove, built-in book: same contract; all weights are >= 1, so every stored move can be chosen',
           unwind=8, param=n, backend='cadical', functions=['Book::getBookMove (book.cpp:46-90)', 'Move::operator==', 'MoveList::operator[]'],
           bounds='%d book entries (case split 0..4), <= 6 legal moves, occurrence counts 1..306' % n,
           stubs=GUARD_STUBS + ['Book::getWeight -> pg ? count : f(count), f an arbitrary function with values in [1, 9363601] (range proved by O3c)']) for n in range(5)
    ] + [
        Ob('O3c-weight', ug, 'h_weight', 'lemma for the substitution in O3b: getWeight(count,false) lies in [1, 9363601] for count 1..306 and applies sqrt only to finite non-negative numbers; getWeight(count,true) == count',
           unwind=8, functions=['Book::getWeight (book.cpp:232-240)'], bounds='count 1..306', stubs=['libm sqrt -> any r with 0 <= r <= max(1,x) (contract of IEEE sqrt on finite x >= 0)']),
    ]
    lg = 8 if tier == 'quick' else 12
    obs += [
        Ob('O4a-search-any@2^%d' % lg, us, 'h_search_any', 'getBookEntries on an arbitrary file: every read is a whole entry inside [0,numEntries); each search probe lies strictly inside (lo,hi) and at least halves it; the search ends after <= lg+1 probes, then entries are read one by one from hi; every returned entry is (getMove(move field), weight field) of an entry read with the position\'s key; empty/missing/short file => no read, no move; no signed overflow, no out-of-bounds access',
           unwind=17, param=lg, unwindset='%s.0:%d,%s.2:5,_ZL8probePosR8Position.0:66' % (GBE, lg + 3, GBE), core=False, backend='cadical', timeout=600 if tier == 'quick' else 3000,
           functions=['Book::getBookEntries (book.cpp:106-160) incl. the readEntry lambda', 'PolyglotBook::deSerialize', 'PolyglotBook::getMove', 'std::vector<BookEntry>::push_back (libstdc++)'],
           bounds='file length -1..16*2^%d+15 bytes (numEntries <= 2^%d), arbitrary bytes per read, read failure at any read, <= 3 collected entries. Larger sizes: SAT cost of the halving argument grows steeply (2^8: ~1 min, 2^12: ~10 min, 2^16: no verdict in 15 min); the top of the range is covered by O4c' % (lg, lg), stubs=SEARCH_STUBS),
        Ob('O4b-search-sorted', us, 'h_search_sorted', 'well-formed book (entries sorted by key, consistent reads): exactly the entries stored under the position\'s key are returned, in file order, decoded by getMove; a trailing partial entry is ignored',
           unwind=17, unwindset='%s.0:5,%s.2:8,_ZL8probePosR8Position.0:66' % (GBE, GBE), core=False, backend='cadical',
           functions=['Book::getBookEntries (book.cpp:106-160)', 'PolyglotBook::deSerialize', 'PolyglotBook::getMove', 'std::vector<BookEntry>::push_back'],
           bounds='<= 6 entries with arbitrary sorted keys (duplicates allowed), arbitrary moves/weights, 0..15 trailing bytes, any wanted key', stubs=SEARCH_STUBS),
        Ob('O4c-search-walk', us, 'h_search_walk', 'largest files below 2 GiB: with every probe comparing the same way (walk to the last or to the first entry - the path with the largest entry numbers) reads stay inside the file, no arithmetic overflow, the search ends after <= 28 probes at the top/bottom',
           unwind=17, unwindset='%s.0:30,%s.2:5,_ZL8probePosR8Position.0:66' % (GBE, GBE), core=False, backend='cadical', param=0,
           functions=['Book::getBookEntries (book.cpp:106-160) incl. the readEntry lambda'],
           bounds='file length 2^31-1024 .. 2^31+15 bytes (numEntries 2^27-64 .. 2^27)', stubs=SEARCH_STUBS,
           assumptions=['monotone comparison outcomes during the search (all 2^28 outcome sequences at this size are beyond the SAT back end)']),
        Ob('O4d-search-walk-huge', us, 'h_search_walk', 'book files of 2 GiB .. 16 GiB: entry offsets do not overflow (this obligation failed before the repository fix recorded in known_findings.txt: entNo*entSize was computed in int), reads stay inside the file, <= 31 probes',
           unwind=17, unwindset='%s.0:34,%s.2:5,_ZL8probePosR8Position.0:66' % (GBE, GBE), core=False, backend='kissat', param=1, tiers=('thorough',), timeout=5400, mem_gb=16,
           functions=['Book::getBookEntries (book.cpp:106-160) incl. the readEntry lambda'],
           bounds='file length 2^31+16 .. 2^34+15 bytes (numEntries up to 2^30; beyond that (lo+hi)/2 and int numEntries are the next limits)', stubs=SEARCH_STUBS,
           assumptions=['monotone comparison outcomes during the search']),
    ]
    return [up, ug, ugb, us], obs
