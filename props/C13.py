from vlib.pipeline import Unit, Ob
from props.common import TRUSTED_BASE

LEVEL_TEXT = ('Bounded symbolic model checking (CBMC) of the real probe-merging kernels: the on-demand-tablebase branch of TBProbe::tbProbe with the 50-move margin, '
              'for every ply, half-move clock, window and every distance-to-mate answer the generated table can give; and Evaluate::swindleScore over its whole input range. '
              'and the build/keep/drop state machine (updateTB, clear) of the table those probes consult.  How the search uses these results (root move choice, window narrowing inside negaScout) is outside the claim.')
ASSUMPTIONS = ['TranspositionTable::probeDTM is a stub returning any answer of the form C12-O4 proves the real generator produces (mate in n>=1, mated in n>=0, draw), n <= 100',
               'external Gaviota/Syzygy tablebases absent (gtbMaxPieces = TBLargest = 0)', 'currentTime() stubbed to 0 (only feeds the probe-cost counter)',
               'ply in [0,200], half-move clock in [0,99], alpha<beta within [-32000,32000]', 'swindleScore: evalScore in [-32767,32767], distToWin in [-1000,1000]']

def build(tier):
    u = Unit('tbmerge', 'C13/tbmerge.cpp', ['h_tbprobe', 'h_swindle'],
             aliases={'_ZNK18TranspositionTable8probeDTMERK8PositioniRi': 'model_probeDTM', '_Z11currentTimev': 'model_currentTime'},
             # code of tbProbe behind 'nPieces <= gtbMaxPieces/TBLargest' (both concretely 0 here) and the unordered_map helpers of getMaxDTZ
             allow_extern=[r'_ZN9UciParams\d+minProbeDepth.*',   # read only for 6/7 men, behind 'nPieces > maxPieces' with maxPieces concretely 4
                           r'_ZN6Syzygy.*', r'_ZN7MoveGen.*', r'tb_probe_\w+', r'_ZN8Position(8makeMove|10unMakeMove).*', r'_ZNKSt8__detail20_Prime_rehash_policy.*'])
    al2 = dict(u.aliases); al2['_ZNK8Position7nPiecesEv'] = 'model_nPieces'
    ue2 = Unit('tbentry', 'C13/tbmerge.cpp', ['h_tbprobe_entry'], aliases=al2, allow_extern=u.allow_extern)
    obs = [
        Ob('O1-tbprobe50@%dmen' % k, u, 'h_tbprobe', 'on-demand probe result merged with the 50-move rule: exact mate score iff the mate is completed by half-move 100, else bound 0 with the signed overshoot recorded; draws exact 0; no hit => no result',
           unwind=3, functions=['TBProbe::tbProbe (tbprobe.cpp:85-260)', 'rule50Margin', 'updateEvScore', 'TTEntry::setScore/getScore/setType/setEvalScore'],
           bounds='ply 0..200, hmc 0..99, n 0..100, nPieces 2..4, arbitrary prior entry contents',
           stubs=['TranspositionTable::probeDTM -> model_probeDTM', 'currentTime -> 0.0'], param=k) for k in (2, 3, 4)
    ] + [
        Ob('O1b-tbprobe-entry@%dmen%s' % (m, 'd' if k else ''), ue2, 'h_tbprobe_entry', 'the inline entry point the search calls (%s), %d men: without external tablebase files a position of 2..4 men reaches the on-demand probe at every depth, 5 men never' % ('with search depth' if k else 'without depth', m),
           unwind=4, functions=['TBProbe::tbProbe inline overloads (tbprobe.hpp:184-215)'], param=2 * m + k, bounds='depth -10..200, ply 0..200, clock 0..99, any table answer',
           stubs=['Position::nPieces -> the case constant', 'TranspositionTable::probeDTM -> model_probeDTM (always a hit here)', 'currentTime -> 0.0']) for m in (2, 3, 4, 5) for k in (0, 1)
    ] + [
        Ob('O2-swindle', u, 'h_swindle', 'swindleScore: |result| <= maxFrustrated, never a mate score, sign rules, below/inside the frustrated band, monotone',
           unwind=3, functions=['Evaluate::swindleScore (evaluate.cpp:184-197)', 'BitUtil::lastBit'], bounds='evalScore in [-32767,32767], distToWin in [-1000,1000] (two independent argument pairs for monotonicity)'),
    ]
    # "the engine has built its on-demand tablebase": the root-triggered build/keep/drop state machine of the table the probe above consults
    # (same harness and obligations as C12-O5; here they guard that a probe never sees a stale, partial or wiped table)
    import copy
    from props import C12
    units12, obs12 = C12.build(tier)
    extra_units = []
    for o in obs12:
        if o.oid in ('L1-firstbit', 'L2-bitcount'):      # substitution lemmas of the tbinstall unit
            obs.append(copy.copy(o))
            if o.unit not in extra_units: extra_units.append(o.unit)
        if o.oid.startswith('O5-updatetb') or o.oid == 'O5c-clear':
            o2 = copy.copy(o); o2.oid = 'O3-' + o.oid[3:].lstrip('-'); o2.core = o.oid == 'O5c-clear' or o.core
            obs.append(o2)
            if o.unit not in extra_units: extra_units.append(o.unit)
    return [u, ue2] + extra_units, obs
