// Engine-level replay of finding F2 (C12-O5), no stubs: real TranspositionTable::updateTB / TBGenerator from libtexellib.a.
// Not part of the solver check (the deciding step is the CBMC verdict of O5-updatetb@1/@3); it shows what the violated invariant costs.
// Build (W = <repo>/lib/texellib, L = a build of libtexellib.a from the same tree):
//   g++ -std=c++11 -O2 -fno-access-control -DHAS_RT -I$W -I$W/book -I$W/debug -I$W/hw -I$W/nn -I$W/tb -I$W/util -I$W/tb/gtb/sysport \
//       -I$W/tb/gtb/compression -I$W/tb/gtb/compression/lzma C12-F2-engine-replay.cpp $L -lpthread -lrt -o f2demo
// Run: ./f2demo <milliseconds until the UCI stop>     (20 = abort in phase 1, 300 = phase 2, 1500 = phase 3 on this box)
#include "transpositionTable.hpp"
#include "tbgen.hpp"
#include "position.hpp"
#include "textio.hpp"
#include "timeUtil.hpp"
#include "random.hpp"
#include <thread>
#include <chrono>
#include <cstdio>

struct Cnt { long probed = 0, found = 0, wrong = 0, missing = 0; };
static Cnt compare(TranspositionTable& tt, TBGenerator<VectorStorage>& ref, const PieceCount& pc, int step) {
    Cnt c; TBPosition tp(pc); Position pos;
    for (U32 idx = 0; idx < tp.nPositions(); idx += step) {
        tp.setIndex(idx);
        if (!tp.indexValid()) continue;
        tp.setIndex(idx);
        tp.getPos(pos);
        int s1 = 0, s2 = 0;
        bool f1 = tt.probeDTM(pos, 0, s1), f2 = ref.probeDTM(pos, 0, s2);
        c.probed++; if (f1) c.found++;
        if (f1 && (!f2 || s1 != s2)) c.wrong++;
        if (!f1 && f2) c.missing++;
    }
    return c;
}

int main(int argc, char** argv) {
    int delayMs = argc > 1 ? atoi(argv[1]) : 100;
    Position pos = TextIO::readFEN("4k3/8/8/8/8/8/8/KQR5 w - - 0 1");
    PieceCount pc{1, 1, 0, 0, 0, 0, 0, 0};
    VectorStorage vs; TBGenerator<VectorStorage> ref(vs, pc);
    RelaxedShared<S64> noLimit(-1);
    double t0 = currentTime();
    bool ok = ref.generate(noLimit, false);
    printf("reference table (own memory) generated: %d in %.2fs\n", ok, currentTime() - t0);

    TranspositionTable tt(1 << 20);            // 16 MiB
    // earlier search: fill the hash table so the region holds ordinary hash data
    Random rnd(1); Move m(Square(12), Square(28), 0);
    for (int i = 0; i < 4000000; i++) tt.insert(rnd.nextU64(), m, 1 + (i % 3), 0, i % 50, (int)(rnd.nextU64() % 2000) - 1000);

    RelaxedShared<S64> maxT(-1);               // "go infinite"
    std::thread stopper([&] { std::this_thread::sleep_for(std::chrono::milliseconds(delayMs)); maxT = 0; });   // UCI "stop"
    t0 = currentTime();
    bool r = tt.updateTB(pos, maxT);
    stopper.join();
    printf("updateTB with stop after %d ms returned %d (%.2fs)\n", delayMs, r, currentTime() - t0);
    int sc = 0;
    bool rootFound = tt.probeDTM(pos, 0, sc);
    printf("root probe right after the aborted generation: found=%d score=%d\n", rootFound, sc);
    Cnt c = compare(tt, ref, pc, 7);
    printf("after abort:        probed %ld positions, table answered %ld, WRONG answers %ld, not answered but known %ld\n", c.probed, c.found, c.wrong, c.missing);
    // the next search stores ordinary hash entries: the region was not excluded from hashing
    for (int i = 0; i < 4000000; i++) tt.insert(rnd.nextU64(), m, 1 + (i % 3), 0, i % 50, (int)(rnd.nextU64() % 2000) - 1000);
    c = compare(tt, ref, pc, 7);
    printf("after hash traffic: probed %ld positions, table answered %ld, WRONG answers %ld, not answered but known %ld\n", c.probed, c.found, c.wrong, c.missing);
    RelaxedShared<S64> again(-1);
    t0 = currentTime();
    r = tt.updateTB(pos, again);
    printf("next updateTB (no limit) returned %d in %.3fs (a regeneration takes > 0.5 s)\n", r, currentTime() - t0);
    c = compare(tt, ref, pc, 7);
    printf("after next updateTB: probed %ld, answered %ld, WRONG answers %ld, missing %ld\n", c.probed, c.found, c.wrong, c.missing);
    return 0;
}
